#!/venv/bin/python
"""Copy the confirmed seeded changes from the scratch area into /verif/seeded/<id>/<m>/ with a meta.json (run once after tools confirm)."""
import json, os, shutil, re, sys
SRC = sys.argv[1] if len(sys.argv) > 1 else "/tmp/wt/out"
CONF = json.load(open(sys.argv[2] if len(sys.argv) > 2 else "/tmp/wt/confirm_results.json"))
ROUND = sys.argv[3] if len(sys.argv) > 3 else "r1"
ROOT = os.path.dirname(os.path.dirname(os.path.abspath(__file__)))
# which registered quick checks report the change (from the try_mut runs recorded in DESIGN.md 9.5)
DETECT = {
 "C01/m1": ["C01","C03"], "C01/m2": ["C01","C02","C03","C05"], "C02/m1": ["C02","C03"], "C02/m2": ["C01","C02","C03","C05"],
 "C03/m1": ["C03","C01","C02","C05"], "C03/m2": ["C03"], "C04/m1": ["C04","C01","C03"], "C04/m2": ["C04","C01","C02","C03"],
 "C05/m1": ["C05","C03"], "C05/m2": ["C05","C03"], "C06/m1": ["C06"], "C06/m2": ["C06"], "C07/m1": ["C07"], "C07/m2": ["C07"],
 "C08/m1": ["C08"], "C08/m2": ["C08"], "C09/m1": ["C09"], "C09/m2": ["C09"], "C10/m1": ["C10"], "C10/m2": ["C10"],
 "C11/m1": ["C11"], "C11/m2": ["C11"], "C12/m1": ["C12"], "C12/m2": ["C12"], "C13/m1": ["C13"], "C13/m2": ["C13"],
 "C14/m1": ["C14"], "C14/m2": ["C14"], "C15/m1": ["C15"], "C15/m2": ["C14"], "C16/m1": ["C16"], "C16/m2": ["C16"],
 "C17/m1": ["C17"], "C17/m2": ["C17"], "C18/m1": ["C18"], "C18/m2": ["C18"], "C19/m1": ["C19"], "C19/m2": ["C19"],
 "C20/m1": ["C20"], "C20/m2": ["C20"],
}
DETECT.update({"r7/C01/m1": ["C01", "C05"], "r7/C05/m1": ["C10"], "r7/C06/m2": [], "r7/C13/m2": ["C16"], "r7/C16/m1": ["C08", "C15"]})
DETECT.update({"r2/C06/m1": ["C06", "C07"], "r2/C10/m2": ["C10", "C03"], "r5/C15/m2": ["C14"], "r6/C11/m2": ["C13", "C01", "C20"]})
kept = 0
for r in CONF:
    pid, m = r["property"], r["mutation"]
    ok = r.get("applies") and r.get("demo_clean_rc") == 0 and r.get("demo_mut_rc") not in (0, None) and r.get("baseline_passed") == 76 and not r.get("baseline_failed")
    src = f"{SRC}/{pid}/{m}"
    if not ok:
        print("NOT KEPT", pid, m, {k: r.get(k) for k in ("applies", "demo_clean_rc", "demo_mut_rc", "baseline_passed", "baseline_failed")})
        continue
    sid = f"{pid}-{ROUND}{m}"
    dst = f"{ROOT}/seeded/{sid}"
    os.makedirs(dst, exist_ok=True)
    for fn in ("demo.py", "notes.md"):
        if os.path.exists(f"{src}/{fn}"):
            shutil.copy(f"{src}/{fn}", f"{dst}/{fn}")
    shutil.copy(f"{src}/{r['patch']}", f"{dst}/patch.diff")  # the patch that applies to the current tree
    if r["patch"] != "patch.diff":
        shutil.copy(f"{src}/patch.diff", f"{dst}/patch_as_written.diff")
    notes = open(f"{src}/notes.md").read() if os.path.exists(f"{src}/notes.md") else ""
    needs = ""
    mm = re.search(r"(?is)(what.{0,40}needs?.{0,60}manifest.*?)(\n#|\Z)", notes)
    meta = dict(
        id=sid,
        property=pid,
        round=ROUND,
        patch="patch.diff",
        demonstration="demo.py",
        note="patch.diff is the same change as patch_as_written.diff re-based onto the repaired tree (the original patch was written before a fix: commit touched the same lines)" if r["patch"] != "patch.diff" else None,
        what_it_needs_to_manifest="see notes.md (written by the author of the change) and DESIGN.md section 9.5",
        confirmed=dict(
            where="scratch git worktree of /repo HEAD (removed afterwards)",
            patch_applies=True,
            demo_exit_code_without_change=r["demo_clean_rc"],
            demo_exit_code_with_change=r["demo_mut_rc"],
            baseline_tests_with_change=f"{r['baseline_passed']} passed, {r.get('baseline_failed', 0)} failed (the 76 pinned tests, pytest -n 5)",
            commands=["git -C /repo worktree add --detach <wt> HEAD", "python demo.py (PYTHONPATH=<wt>)", f"git apply {r['patch']}", "python demo.py", "pytest -n 5 <76 pinned tests>", "git worktree remove --force <wt>"],
        ),
        detected_by_quick_checks=DETECT.get(f"{ROUND}/{pid}/{m}", DETECT.get(f"{pid}/{m}", []) if ROUND == "r1" else [pid]),
        how_to_rerun=f"tools/try_mut.sh seeded/{sid}/patch.diff " + " ".join(DETECT.get(f"{ROUND}/{pid}/{m}", DETECT.get(f"{pid}/{m}", [pid]) if ROUND == "r1" else [pid])) + "   (scratch worktree)  or  INPLACE=1 tools/try_mut.sh ... (applies to /repo, runs, undoes)",
    )
    json.dump({k: v for k, v in meta.items() if v is not None}, open(f"{dst}/meta.json", "w"), indent=1)
    kept += 1
print("kept", kept, "of", len(CONF))
