#!/bin/bash
# usage: tools/run_all.sh quick|thorough [IDs...]   -- runs the registered checks one after the other and prints one line per check
cd "$(dirname "$0")/.."
TIER=${1:-quick}; shift
IDS=${@:-C01 C02 C03 C04 C05 C06 C07 C08 C09 C10 C11 C12 C13 C14 C15 C16 C17 C18 C19 C20}
for id in $IDS; do
  out=$(./check $id --tier $TIER 2>&1); rc=$?
  echo "$id rc=$rc $(echo "$out" | grep -E "^\[$id\] tier" | head -1)"
  echo "$out" | grep -E "violation key|HARNESS|KNOWN-FINDING" | head -5
done
