#!/bin/bash
# usage: tools/try_mut.sh <patch.diff> <ID> [<ID> ...]   -- apply a seeded defect to /repo, run the quick checks, revert
P=$1; shift
cd /repo || exit 2
if ! git diff --quiet; then echo "repo dirty"; exit 2; fi
git apply "$P" || { echo "PATCH DOES NOT APPLY"; exit 3; }
cd /verif
for id in "$@"; do
  out=$(VERIF_REPLAY_DIR=/tmp/wt/replays ./check $id --tier ${TIER:-quick} 2>&1); rc=$?
  echo "== $id rc=$rc :: $(echo "$out" | grep -E "^\[$id\] tier" | head -1)"
  echo "$out" | grep -E "violation key|HARNESS" | head -4
done
git -C /repo checkout -- . ; git -C /repo status --short | grep -v test.xlsx
