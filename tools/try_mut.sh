#!/bin/bash
# usage: tools/try_mut.sh <patch.diff> <ID> [<ID> ...]
# Applies a seeded defect to a scratch worktree of /repo (HEAD), runs the checks against that tree, removes the worktree.
# (INPLACE=1: apply to /repo itself, run, and undo straight afterwards.)
P=$(readlink -f "$1"); shift
if [ -n "$INPLACE" ]; then
  cd /repo || exit 2
  git diff --quiet || { echo "repo dirty"; exit 2; }
  git apply "$P" || { echo "PATCH DOES NOT APPLY"; exit 3; }
  WT=/repo
else
  WT=/tmp/wt/mut_$$
  git -C /repo worktree add --detach $WT HEAD -q || exit 2
  (cd $WT && git apply "$P") || { echo "PATCH DOES NOT APPLY"; git -C /repo worktree remove --force $WT; exit 3; }
fi
cd /verif
for id in "$@"; do
  out=$(PYTHONPATH=$WT VERIF_REPO=$WT VERIF_JOBS=${JOBS:-16} VERIF_REPLAY_DIR=/tmp/wt/replays VERIF_EVIDENCE_DIR=/tmp/wt/evidence ./check $id --tier ${TIER:-quick} 2>&1); rc=$?
  echo "== $id rc=$rc :: $(echo "$out" | grep -E "^\[$id\] tier" | head -1)"
  echo "$out" | grep -E "violation key|HARNESS" | head -4
done
if [ -n "$INPLACE" ]; then git -C /repo checkout -- . ; else git -C /repo worktree remove --force $WT; fi
