"""Compare a refsim.Trace with an atomica Result at every time index (conformance = the binding of the reference model to the code)."""

import numpy as np
from atomica.model import TimedCompartment, TimedLink, JunctionCompartment
from mc.oracles import V


def link_key(l):
    if l.parameter is not None:
        par = l.parameter.name
    elif isinstance(l.source, TimedCompartment) and l.source.flush_link is l:
        par = l.source.parameter.name
    else:
        par = ">"
    return (l.source.pop.name, l.source.name, l.dest.pop.name, l.dest.name, par)


def close(a, b, rtol, atol):
    a = np.asarray(a, dtype=float)
    b = np.asarray(b, dtype=float)
    if a.shape != b.shape:
        return False, -1
    ok = np.isclose(a, b, rtol=rtol, atol=atol, equal_nan=True) | ((a == b))
    if ok.all():
        return True, None
    return False, int(np.argmax(~ok.reshape(ok.shape[0], -1).all(axis=1))) if ok.ndim > 1 else int(np.argmax(~ok))


def compare(trace, r, rtol=1e-8, what=("t", "comp", "rows", "link", "linkrows", "par", "charac"), last_flow=False):
    m = r.model
    out = []
    T = len(trace.t)
    if len(m.t) != T or not np.allclose(m.t, trace.t, rtol=0, atol=1e-9):
        out.append(V("time-grid", f"grid differs: impl n={len(m.t)} [{m.t[0]!r}..{m.t[-1]!r}] vs ref n={T} [{trace.t[0]!r}..{trace.t[-1]!r}]", None))
        return out
    scale = max(1.0, max((max(abs(x) for x in v if x == x and abs(x) != float("inf")) if any(x == x for x in v) else 0.0) for v in trace.comp.values()))
    # the two time grids are accepted as equal up to 1e-9; a displacement of the grid by dgrid moves every interpolated input by at most
    # dgrid/dt of its range, so that share of the run's scale is not a disagreement about behaviour (a grid point one ulp away from a data
    # knot picks up ~1e-11 of the neighbouring value)
    dgrid = float(np.max(np.abs(np.asarray(m.t) - np.asarray(trace.t)))) if T else 0.0
    atol = (1e-12 + 4 * dgrid / float(m.dt)) * scale
    nflow = T if last_flow else T - 1
    for pop in m.pops:
        if "comp" in what:
            for c in pop.comps:
                ref = trace.comp.get((pop.name, c.name))
                if ref is None:
                    out.append(V("missing-in-ref", f"compartment {pop.name}/{c.name}", None))
                    continue
                ok, i = close(c.vals, ref, rtol, atol)
                if not ok:
                    out.append(V("stock-mismatch", f"{pop.name}/{c.name} index {i}: impl {np.asarray(c.vals)[i]!r} ref {ref[i]!r}", dict(pop=pop.name, comp=c.name, index=i)))
                if "rows" in what and isinstance(c, TimedCompartment):
                    rr = trace.rows.get((pop.name, c.name))
                    if rr is None or len(rr[0]) != c._vals.shape[0]:
                        out.append(V("bins-mismatch", f"{pop.name}/{c.name}: impl has {c._vals.shape[0]} elapsed-time bins, ref {None if rr is None else len(rr[0])}", None))
                    else:
                        ok, i = close(c._vals.T, np.array(rr), rtol, atol)
                        if not ok:
                            out.append(V("bin-content-mismatch", f"{pop.name}/{c.name} index {i}: impl {c._vals[:, i].tolist()} ref {rr[i]}", None))
        if "link" in what:
            seen = set()
            for l in pop.links:
                k = link_key(l)
                seen.add(k)
                ref = trace.link.get(k)
                if ref is None:
                    out.append(V("missing-in-ref", f"link {k}", None))
                    continue
                ok, i = close(np.asarray(l.vals)[:nflow], ref[:nflow], rtol, atol)
                if not ok:
                    out.append(V("flow-mismatch", f"link {k} step {i}: impl {np.asarray(l.vals)[i]!r} ref {ref[i]!r}", dict(link=list(k), index=i)))
                if "linkrows" in what and isinstance(l, TimedLink) and k in trace.linkrows:
                    rr = np.array(trace.linkrows[k])[:nflow]
                    iv = l._vals.T[:nflow]
                    if rr.shape == iv.shape:
                        ok, i = close(iv, rr, rtol, atol)
                        if not ok:
                            out.append(V("flow-bin-mismatch", f"link {k} step {i}: impl {iv[i].tolist()} ref {rr[i].tolist()}", None))
                    else:
                        out.append(V("flow-bin-shape", f"link {k}: impl {iv.shape} ref {rr.shape}", None))
            for k in trace.link:
                if k[0] == pop.name and k not in seen:
                    out.append(V("missing-in-impl", f"link {k}", None))
        if "par" in what:
            for p in pop.pars:
                ref = trace.par.get((pop.name, p.name))
                if ref is None or any(x is None for x in ref):
                    continue
                ok, i = close(p.vals, ref, rtol, 1e-12)
                if not ok:
                    out.append(V("parameter-mismatch", f"{pop.name}/{p.name} index {i}: impl {p.vals[i]!r} ref {ref[i]!r}", dict(pop=pop.name, par=p.name, index=i)))
        if "charac" in what:
            for c in pop.characs:
                ref = trace.charac.get((pop.name, c.name))
                if ref is None:
                    continue
                ok, i = close(c.vals, ref, rtol, atol)
                if not ok:
                    out.append(V("characteristic-mismatch", f"{pop.name}/{c.name} index {i}: impl {np.asarray(c.vals)[i]!r} ref {ref[i]!r}", None))
        if len(out) > 8:
            break
    return out
