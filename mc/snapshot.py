"""
Canonical structural snapshot of arbitrary atomica objects (public and private attributes, caches included),
used for 'inputs left untouched' comparisons, full-state deduplication and deep diffs.
"""

import hashlib
import numpy as np
import pandas as pd

VOLATILE = {"uid", "created", "modified", "gitinfo", "version", "_fcn"}


def snap(o, volatile=(), _seen=None):
    """Nested canonical structure (lists/tuples/strings) of o.  Attributes named in `volatile` are skipped.
    Every container/object is expanded once (first visit in deterministic traversal order); later visits are ("ref", k)."""
    if _seen is None:
        _seen = {}
    if o is None or isinstance(o, (bool, int, str)):
        return o
    if isinstance(o, float):
        return "f:" + float(o).hex()
    if isinstance(o, np.generic):
        return snap(o.item(), volatile, _seen)
    if isinstance(o, np.ndarray):
        if o.dtype == object:
            return ("nd-obj", o.shape, [snap(x, volatile, _seen) for x in o.ravel().tolist()])
        return ("nd", str(o.dtype), o.shape, hashlib.md5(np.ascontiguousarray(o).tobytes()).hexdigest())
    if isinstance(o, bytes):
        return ("bytes", hashlib.md5(o).hexdigest())
    oid = id(o)
    if oid in _seen:
        return ("ref", _seen[oid][0])
    _seen[oid] = (len(_seen), o)  # keep the object alive so that ids are not reused during the traversal
    if isinstance(o, dict):
        items = list(o.items())
        if type(o) is dict:
            # a plain dict is a lookup table: its insertion order is not part of what an object "is" (pickling a model rebuilds its lookup
            # tables in another order); ordered dictionaries (sciris odict, OrderedDict) keep their order, which is observable by index
            try:
                items.sort(key=lambda kv: repr(kv[0]))
            except Exception:
                pass
        return ("dict", type(o).__name__, [(snap(k, volatile, _seen), snap(v, volatile, _seen)) for k, v in items])
    if isinstance(o, (list, tuple)):
        return (type(o).__name__, [snap(x, volatile, _seen) for x in o])
    if isinstance(o, (set, frozenset)):
        return ("set", sorted((repr(snap(x, volatile, _seen)) for x in o)))
    if isinstance(o, pd.DataFrame):
        return ("df", [str(c) for c in o.columns], [str(i) for i in o.index], [snap(x, volatile, _seen) for x in o.to_numpy(dtype=object).ravel().tolist()])
    if isinstance(o, pd.Series):
        return ("series", [str(i) for i in o.index], [snap(x, volatile, _seen) for x in o.tolist()])
    if isinstance(o, pd.Index):
        return ("index", [str(i) for i in o])
    if callable(o) and not hasattr(o, "__dict__"):
        return ("callable", getattr(o, "__name__", repr(type(o))))
    if hasattr(o, "__dict__") or hasattr(o, "__slots__"):
        items = []
        if hasattr(o, "__dict__"):
            items += list(vars(o).items())
        for k in getattr(type(o), "__slots__", ()) or ():
            if hasattr(o, k):
                items.append((k, getattr(o, k)))
        return ("obj", type(o).__name__, [(k, snap(v, volatile, _seen)) for k, v in items if k not in volatile])
    return ("repr", repr(o))


def snap_hash(o, volatile=()):
    return hashlib.sha256(repr(snap(o, volatile)).encode()).hexdigest()[:20]


def diff(a, b, path="", out=None, limit=5):
    """First differing paths between two snapshots"""
    if out is None:
        out = []
    if len(out) >= limit:
        return out
    if type(a) != type(b):
        out.append(f"{path}: {str(a)[:80]} != {str(b)[:80]}")
        return out
    if isinstance(a, (list, tuple)):
        if len(a) != len(b):
            out.append(f"{path}: length {len(a)} != {len(b)}")
            return out
        for i, (x, y) in enumerate(zip(a, b)):
            if x != y:
                label = i
                if isinstance(x, tuple) and len(x) == 2 and isinstance(x[0], str):
                    label = x[0]
                diff(x, y, f"{path}/{label}", out, limit)
                if len(out) >= limit:
                    break
        return out
    if a != b:
        out.append(f"{path}: {str(a)[:80]} != {str(b)[:80]}")
    return out
