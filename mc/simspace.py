"""
The shared structure space S of DESIGN.md 5.0: deterministic, simplest-first generators of model specs.

The space is a union of sub-spaces, each one a *full product* over the dimensions it names
with the remaining dimensions at their default.  Every generator encodes the validity rules
itself (it never asks atomica whether a structure is valid).

Sub-spaces
  flows(tier)     core graphs on 1..3 compartments x edge type (unit, timescale, level) per edge x dt
                  x {source} x {sink with one shared death parameter}
  junctions(tier) junction gadgets x proportion vectors x proportion source x dt
  timed(tier)     timed compartments / duration groups x D/dt ratios x extra outflow level x dt
  pops(tier)      two populations, transfers (units), interaction-weighted aggregation, programs
  combined(tier)  everything at once (7 compartments, 2 populations) x value levels x dt
"""

import copy
import itertools

DTS = dict(quick=[1.0, 0.25, 1 / 12], thorough=[1.0, 0.25, 1 / 12, 0.1, 0.3, 0.5, 1 / 52, 2.0])
START = 2000.0


def span(dt):
    """(start, end) so that runs have between 3 and ~36 steps"""
    if dt >= 1:
        return [START, START + 4 * dt]
    if dt >= 0.2:
        return [START, START + 3]
    if dt >= 1 / 13:
        return [START, START + 2]
    return [START, START + 30 * dt]


def edge_types(dt, tier, reduced=False):
    """[(fmt, timescale, value)] - levels chosen to hit: zero, ordinary, over-draw, timescale != 1"""
    q = [
        ("probability", None, 0.3),
        ("duration", None, dt / 10),  # requested fraction 10  -> over-draw
        ("number", None, 20.0),
    ]
    if reduced:
        return q
    q += [
        ("probability", None, 4 / dt),  # fraction 4
        ("rate", 1 / 12, 0.05),  # fraction 0.05*dt*12
        ("duration", None, 2.0),
        ("number", None, 1e4),  # more people than exist
        ("probability", None, 0.0),
        ("rate", None, {"t": [START, START + 0.5, START + 1], "v": [0.6, 0.6, 0.0]}),  # positive, then exactly zero from START+1 on
    ]
    if tier == "thorough":
        q += [
            ("rate", None, 1 / dt),  # exactly empties
            ("duration", 1 / 365, 200.0),
            ("number", 0.5, 30.0),
            ("probability", None, {"t": [START, START + 1], "v": [0.1, 0.9]}),
            ("rate", None, 1e6),
        ]
    return q


def core_graphs(c, max_edges):
    names = "abc"[:c]
    pairs = [(s, d) for s in names for d in names if s != d]
    for k in range(0, max_edges + 1):
        for es in itertools.combinations(pairs, k):
            yield list(names), list(es)


def base_spec(names, dt, init=None):
    init = init or {}
    s, e = span(dt)
    return dict(comps=[dict(name=n, kind="ord", init=init.get(n, [100.0, 20.0, 5.0][i])) for i, n in enumerate(names)], pars=[], links=[], characs=[], pops=["pa"], sim=[s, e, dt])


def add_edge(spec, s, d, et, name=None):
    fmt, ts, val = et
    name = name or f"k{len(spec['pars'])}"
    spec["pars"].append(dict(name=name, fmt=fmt, ts=ts, val=val))
    spec["links"].append([s, d, name])
    return name


def add_source(spec, dest, n=None, ts=None):
    if n is None:
        n = {"t": [START, START + 1, START + 1.5], "v": [30.0, 30.0, 0.0]}  # births stop (exactly zero) from START+1.5 on
        if ts:
            n = dict(n, v=[x * ts for x in n["v"]])  # the same births entered per month / per week (parameter timescale ts years)
    spec["comps"].append(dict(name="src", kind="src"))
    spec["pars"].append(dict(name="br", fmt="number", val=n, ts=ts))
    spec["links"].append(["src", dest, "br"])


def add_sink(spec, froms, val=0.1, fmt="rate"):
    spec["comps"].append(dict(name="dead", kind="sink"))
    spec["pars"].append(dict(name="dr", fmt=fmt, val=val))
    for f in froms:
        spec["links"].append([f, "dead", "dr"])


def flows(tier):
    dts = DTS[tier]
    for c in (1, 2, 3):
        for names, edges in core_graphs(c, {1: 0, 2: 2, 3: 3 if tier == "quick" else 4}[c]):
            for extras in itertools.product([False, True] + ([1 / 12, 7 / 365] if c < 3 else []), [False, True]):
                source, sink = extras  # source: False | True (births per year) | timescale in years (births entered per month / per week)
                if not edges and not (source or sink):
                    continue
                for dt in dts:
                    reduced = c == 3 or (tier == "quick" and len(edges) > 1 and (source or sink))
                    ets = edge_types(dt, tier, reduced=reduced)
                    for combo in itertools.product(range(len(ets)), repeat=len(edges)):
                        spec = base_spec(names, dt)
                        for (s, d), i in zip(edges, combo):
                            add_edge(spec, s, d, ets[i])
                        if source:
                            add_source(spec, names[0], ts=None if source is True else source)
                        if sink:
                            add_sink(spec, names)
                        spec["characs"].append(dict(name="alive", comps=list(names)))
                        spec["tag"] = "flows"
                        yield spec


# ---------------------------------------------------------------- junction gadgets

PROPS = dict(quick=[0.0, 0.5, 1.5], thorough=[0.0, 0.2, 0.5, 0.8, 1.0, 1.5])


def _jbase(dt, jinit=0.0, ninit=(100.0, 20.0, 5.0)):
    """a -> (junction gadget) -> b, c ; b -> a, c -> a so that the system keeps cycling"""
    spec = base_spec(["a", "b", "c"], dt, init=dict(a=ninit[0], b=ninit[1], c=ninit[2]))
    spec["pars"] += [dict(name="back", fmt="rate", val=0.4)]
    spec["links"] += [["b", "a", "back"], ["c", "a", "back"]]
    spec["characs"].append(dict(name="alive", comps=["a", "b", "c"]))
    return spec


def _junc(spec, name, init):
    c = dict(name=name, kind="junc")
    if init:
        c["init"] = init
    else:
        c["default"] = 0
    spec["comps"].append(c)


def junction_gadgets(tier):
    """name, builder(spec, props) - number of proportion parameters needed"""
    # the *_rev / to_res / res_res gadgets declare the downstream junction BEFORE the upstream one (declaration order != topological order)
    return [("single", 2), ("residual", 2), ("fan", 3), ("chain", 3), ("diamond", 4), ("res_chain", 3), ("chain_rev", 3), ("to_res", 3), ("res_res", 2), ("shared_res", 3)]


def build_gadget(spec, gadget, props, jinit, inflow=("probability", None, 0.5), psrc="const", two_in=False):
    """Attach the gadget between a and {b, c}.  props: list of proportion values"""

    def P(i, v):
        n = f"q{i}"
        p = dict(name=n, fmt="proportion")
        if psrc == "const":
            p["val"] = v
        elif psrc == "tv":
            p["val"] = {"t": [START, START + 1], "v": [v, max(0.0, v - 0.2) if v > 0 else 0.3 * (i == 0)]}
        elif psrc == "fn":
            # state dependent: scaled by b/(b+c+1) which stays in (0,1)
            p["val"] = None
            p["fn"] = f"{v}*(0.5+b/(a+b+c+1))"
        spec["pars"].append(p)
        return n

    add_edge(spec, "a", "j1", inflow, name="tj")
    if two_in:
        add_edge(spec, "b", "j1", ("rate", None, 0.3), name="tj2")
    if gadget == "single":
        _junc(spec, "j1", jinit)
        spec["links"] += [["j1", "b", P(0, props[0])], ["j1", "c", P(1, props[1])]]
    elif gadget == "residual":
        _junc(spec, "j1", jinit)
        spec["links"] += [["j1", "b", P(0, props[0])], ["j1", "c", P(1, props[1])], ["j1", "a", ">"]]
    elif gadget == "fan":
        _junc(spec, "j1", jinit)
        spec["links"] += [["j1", "a", P(0, props[0])], ["j1", "b", P(1, props[1])], ["j1", "c", P(2, props[2])]]
    elif gadget == "chain":
        _junc(spec, "j1", jinit)
        _junc(spec, "j2", jinit / 2 if jinit else 0)
        spec["links"] += [["j1", "b", P(0, props[0])], ["j1", "j2", P(1, props[1])], ["j2", "c", P(2, props[2])], ["j2", "a", P(3, 0.25)]]
    elif gadget == "diamond":
        # declared j3 before j2 before j1 would be the declaration-order trap; declare downstream first
        _junc(spec, "j3", 0)
        _junc(spec, "j2", 0)
        _junc(spec, "j1", jinit)
        spec["links"] += [["j1", "j2", P(0, props[0])], ["j1", "j3", P(1, props[1])], ["j2", "b", P(2, props[2])], ["j2", "c", P(3, props[3])], ["j3", "c", P(4, 1.0)]]
    elif gadget == "res_chain":
        _junc(spec, "j2", 0)
        _junc(spec, "j1", jinit)
        spec["links"] += [["j1", "b", P(0, props[0])], ["j1", "j2", ">"], ["j2", "c", P(1, props[1])], ["j2", "a", P(2, props[2])]]
    elif gadget == "chain_rev":
        _junc(spec, "j2", jinit / 2 if jinit else 0)
        _junc(spec, "j1", jinit)
        spec["links"] += [["j1", "b", P(0, props[0])], ["j1", "j2", P(1, props[1])], ["j2", "c", P(2, props[2])], ["j2", "a", P(3, 0.25)]]
    elif gadget == "to_res":
        # plain junction feeding a residual junction that is declared first
        _junc(spec, "j2", jinit / 2 if jinit else 0)
        _junc(spec, "j1", jinit)
        spec["links"] += [["j1", "b", P(0, props[0])], ["j1", "j2", P(1, props[1])], ["j2", "c", P(2, props[2])], ["j2", "a", ">"]]
    elif gadget == "res_res":
        _junc(spec, "j2", 0)
        _junc(spec, "j1", jinit)
        spec["links"] += [["j1", "b", P(0, props[0])], ["j1", "j2", ">"], ["j2", "c", P(1, props[1])], ["j2", "a", ">"]]
    elif gadget == "shared_res":
        # two residual junctions whose outflows share one proportion parameter (q0): each junction splits by the stated proportions, whatever
        # the other one did with them in the same step (e.g. scaling a sum above 1)
        _junc(spec, "j1", jinit)
        _junc(spec, "j2", jinit / 2 if jinit else 0)
        add_edge(spec, "b", "j2", ("rate", None, 0.4), name="tk")
        q0 = P(0, props[0])
        spec["links"] += [["j1", "b", q0], ["j1", "c", P(1, props[1])], ["j1", "a", ">"], ["j2", "c", q0], ["j2", "a", P(2, props[2])], ["j2", "b", ">"]]
    else:
        raise ValueError(gadget)


def gadget_domain_ok(gadget, props, scale_min=1.0):
    """Property's domain restriction: a plain junction that receives people must have a positive proportion sum.
    Decided from the spec (never from NaNs)."""
    if gadget == "single":
        return props[0] + props[1] > 0
    if gadget == "fan":
        return sum(props[:3]) > 0
    if gadget in ("chain", "chain_rev", "to_res"):
        return props[0] + props[1] > 0  # the downstream junction has a constant / residual outflow
    if gadget == "diamond":
        # j2 receives iff props[0]>0 ; j3 has a constant outflow
        return (props[0] + props[1] > 0) and (props[0] == 0 or props[2] + props[3] > 0)
    if gadget == "res_chain":
        # j2 (plain) receives the residual of j1 iff props[0] < 1
        return props[0] * scale_min >= 1 or props[1] + props[2] > 0
    return True  # residual


def junctions(tier):
    levels = PROPS[tier]
    for gadget, n in junction_gadgets(tier):
        for psrc in ("const", "tv", "fn") if tier == "thorough" else ("const", "fn"):
            for jinit in (0.0, 50.0):
                for dt in DTS[tier][:3] if tier == "quick" else [1.0, 0.25, 1 / 12, 0.3]:
                    lv = levels if n <= 3 else ([0.0, 0.5, 1.5] if tier == "quick" else [0.0, 0.5, 1.0, 1.5])
                    for props, two_in in itertools.product(itertools.product(lv, repeat=n), (False, True)):
                        if psrc != "const" and dt != 0.25:
                            continue
                        if two_in and (gadget in ("single", "residual") or dt == 1.0) and tier == "quick":
                            continue
                        spec = _jbase(dt, jinit)
                        build_gadget(spec, gadget, list(props), jinit, psrc=psrc, two_in=two_in)
                        spec["tag"] = "junctions"
                        spec["gadget"] = dict(name=gadget, props=list(props), psrc=psrc, jinit=jinit, two_in=two_in, ok=gadget_domain_ok(gadget, list(props), scale_min=0.5 if psrc == "fn" else 1.0))
                        if psrc == "tv":
                            # the time-varying series changes the values; domain must hold at both ends
                            p2 = [max(0.0, v - 0.2) if v > 0 else 0.3 * (i == 0) for i, v in enumerate(props)]
                            spec["gadget"]["ok"] = spec["gadget"]["ok"] and gadget_domain_ok(gadget, p2)
                        yield spec


# ---------------------------------------------------------------- timed compartments


def durations(dt, tier):
    """[(label, D)] - D computed the ways users write it"""
    out = [("1dt", dt), ("3dt", 3 * dt), ("2.5dt", 2.5 * dt), ("0.4dt", 0.4 * dt)]
    if tier == "thorough":
        out += [("5dt", 5 * dt), ("20dt", 20 * dt), ("1.5dt", 1.5 * dt), ("2dt", 2 * dt)]
    return out


def timed(tier):
    """a (timed, D) --flush--> b ; optional extra ordinary outflow a->c ; inflow c->a, b->a ; variants with a duration group"""
    for struct in ("single", "group", "group_junction", "group_junction2", "group_resjunction", "two_pops", "three_pops", "two_groups_longer", "two_groups_shorter", "two_groups_equal"):
        for dt in DTS[tier][:3] if tier == "quick" else [1.0, 0.25, 1 / 12, 0.1, 0.3, 1 / 52]:
            for lab, D in durations(dt, tier):
                for extra in (None, 0.3, "over"):
                    for ainit in (0.0, 60.0):
                        spec = base_spec(["a", "b", "c"], dt, init=dict(a=ainit, b=20.0, c=100.0))
                        spec["pars"].append(dict(name="dur", fmt="duration", val=D, timed=True))
                        spec["pars"].append(dict(name="inr", fmt="rate", val=0.5))
                        spec["links"] += [["c", "a", "inr"], ["b", "c", "inr"]]
                        if extra is not None:
                            add_edge(spec, "a", "c", ("probability", None, 0.3 if extra == 0.3 else 3 / dt), name="ex")
                        if struct == "single":
                            spec["links"].append(["a", "b", "dur"])
                        elif struct == "group":
                            # a and a2 share the timed parameter; a -> a2 keeps elapsed time; both flush to b
                            spec["comps"].append(dict(name="a2", kind="ord", init=0.0 if ainit == 0 else 10.0))
                            spec["pars"].append(dict(name="mv", fmt="probability", val=0.4))
                            spec["links"] += [["a", "b", "dur"], ["a2", "b", "dur"], ["a", "a2", "mv"]]
                        elif struct == "group_junction":
                            spec["comps"].append(dict(name="a2", kind="ord", init=0.0 if ainit == 0 else 10.0))
                            spec["comps"].append(dict(name="a3", kind="ord", init=0.0))
                            spec["comps"].append(dict(name="jt", kind="junc", default=0))
                            spec["pars"] += [dict(name="mv", fmt="probability", val=0.4), dict(name="s1", fmt="proportion", val=0.3), dict(name="s2", fmt="proportion", val=0.7)]
                            spec["links"] += [["a", "b", "dur"], ["a2", "b", "dur"], ["a3", "b", "dur"], ["a", "jt", "mv"], ["jt", "a2", "s1"], ["jt", "a3", "s2"]]
                        elif struct in ("group_junction2", "group_resjunction"):
                            # a and a2 both feed the in-group junction jt (two time-preserving inflows); jt -> a3, a4 (residual variant: a4 via '>')
                            for nm, v0 in (("a2", 15.0), ("a3", 0.0), ("a4", 5.0)):
                                spec["comps"].append(dict(name=nm, kind="ord", init=0.0 if (ainit == 0 and nm != "a2") else v0))
                            spec["comps"].append(dict(name="jt", kind="junc", default=0))
                            spec["pars"] += [dict(name="mv", fmt="probability", val=0.4), dict(name="mv2", fmt="rate", val=0.9), dict(name="s1", fmt="proportion", val=0.3)]
                            spec["links"] += [[c, "b", "dur"] for c in ("a", "a2", "a3", "a4")] + [["a", "jt", "mv"], ["a2", "jt", "mv2"], ["jt", "a3", "s1"]]
                            if struct == "group_junction2":
                                spec["pars"].append(dict(name="s2", fmt="proportion", val=0.9))
                                spec["links"].append(["jt", "a4", "s2"])
                            else:
                                spec["links"].append(["jt", "a4", ">"])
                        elif struct.startswith("two_groups"):
                            # a second duration group (its own timed parameter): a direct move a -> a5 between the groups restarts the elapsed time
                            D2 = {"two_groups_longer": 2 * D + dt, "two_groups_shorter": max(D / 2, 0.4 * dt), "two_groups_equal": D}[struct]
                            spec["comps"].append(dict(name="a5", kind="ord", init=0.0 if ainit == 0 else 12.0))
                            spec["pars"] += [dict(name="dur2", fmt="duration", val=D2, timed=True), dict(name="mv", fmt="probability", val=0.4)]
                            spec["links"] += [["a", "b", "dur"], ["a5", "b", "dur2"], ["a", "a5", "mv"]]
                        elif struct == "two_pops":
                            spec["pops"] = ["pa", "pb"]
                            spec["pars"][0]["val"] = {"pa": D, "pb": 2 * D if D >= dt else 3 * dt}
                            spec["links"].append(["a", "b", "dur"])
                            spec["transfers"] = [dict(name="mig", units="rate", pairs={"pa>pb": 0.3, "pb>pa": 0.2})]
                        elif struct == "three_pops":
                            # the same timed parameter with three different values; in one step the population with the shortest duration
                            # receives people from BOTH longer-lived populations (each inflow carries people older than its maximum stay)
                            spec["pops"] = ["pa", "pb", "pc"]
                            spec["pars"][0]["val"] = {"pa": 4 * D if D >= dt else 5 * dt, "pb": 2 * D if D >= dt else 3 * dt, "pc": D}
                            spec["links"].append(["a", "b", "dur"])
                            spec["transfers"] = [dict(name="mig", units="rate", pairs={"pa>pc": 0.3, "pb>pc": 0.2, "pc>pa": 0.1})]
                        comps = [c["name"] for c in spec["comps"] if c["kind"] == "ord"]
                        spec["characs"].append(dict(name="alive", comps=comps))
                        spec["tag"] = "timed"
                        spec["timed"] = dict(struct=struct, D=lab, extra=extra, ainit=ainit)
                        yield spec
                        if struct in ("group", "group_junction", "group_junction2", "group_resjunction") and extra == 0.3 and ainit:
                            # the same model with its parameter rows in another order: the time-preserving moves are declared (and attached
                            # to their source compartments) BEFORE the duration parameter and the ordinary outflows
                            s2 = copy.deepcopy(spec)
                            first = [p for p in s2["pars"] if p["name"] in ("mv", "mv2", "s1", "s2")]
                            s2["pars"] = first + [p for p in s2["pars"] if p not in first]
                            s2["links"] = [l for l in s2["links"] if l[2] in ("mv", "mv2", "s1", "s2", ">")] + [l for l in s2["links"] if l[2] not in ("mv", "mv2", "s1", "s2", ">")]
                            s2["timed"] = dict(s2["timed"], order="moves_first")
                            yield s2


# ---------------------------------------------------------------- populations / transfers / aggregation / programs


def prog_block(target_par, pops, comps, start, kind="one"):
    progs = [dict(name="P1", pops=pops, comps=comps, spend=300.0, uc=10.0, oneoff=True)]
    covs = [dict(par=target_par, pop=p, base=0.05, progs={"P1": 0.6}) for p in pops]
    if kind == "two":
        progs.append(dict(name="P2", pops=pops[:1], comps=comps, spend={"t": [START, START + 1], "v": [100.0, 900.0]}, uc=5.0, sat=0.8))
        covs[0]["progs"]["P2"] = 0.9
        covs[0]["inter"] = "random"
    return dict(progs=progs, covouts=covs, instr=dict(start=start))


AGGS = ("SRC_POP_AVG", "SRC_POP_SUM", "TGT_POP_AVG", "TGT_POP_SUM")


def pops(tier):
    for dt in DTS[tier][:3] if tier == "quick" else [1.0, 0.25, 1 / 12, 0.3, 0.5]:
        for tunits, tval in (("rate", 0.1), ("number", 7.0), ("duration", 4.0), ("rate", 5 / dt), ("number", 1e4), ("duration", dt / 4)):
            for agg in (None, "SRC_POP_AVG", "SRC_POP_SUM", "TGT_POP_AVG"):
                for prog in (None, "one", "two"):
                    for et in edge_types(dt, tier, reduced=True):
                        spec = base_spec(["a", "b"], dt, init=dict(a={"pa": 100.0, "pb": 40.0}, b={"pa": 10.0, "pb": 0.0}))
                        spec["pops"] = ["pa", "pb"]
                        spec["transfers"] = [dict(name="mig", units=tunits, pairs={"pa>pb": tval})]
                        add_edge(spec, "b", "a", et, name="rec")
                        spec["characs"].append(dict(name="alive", comps=["a", "b"]))
                        spec["characs"].append(dict(name="prev", comps=["b"], denom="alive"))
                        if agg:
                            spec["interactions"] = [dict(name="mix", pairs={"pa>pa": 1.0, "pa>pb": 0.5, "pb>pa": 0.2, "pb>pb": 2.0})]
                            spec["pars"].append(dict(name="foi", fmt="probability", fn=f"{agg}(prev, mix, alive)", min=0, max=None))
                            spec["pars"].append(dict(name="inf", fmt="probability", fn="foi*0.8+0.01"))
                            spec["links"].append(["a", "b", "inf"])
                        else:
                            spec["pars"].append(dict(name="inf", fmt="probability", val={"pa": 0.2, "pb": 0.05}, targ=True, min=0))
                            spec["links"].append(["a", "b", "inf"])
                        if prog:
                            if agg:
                                continue
                            spec["pars"][-1]["targ"] = True
                            spec["progs"] = prog_block("inf", ["pa", "pb"], ["a"], START + (1 if dt <= 1 else 2 * dt), prog)
                        spec["tag"] = "pops"
                        yield spec
        # two aggregation parameters evaluated one after the other on the SAME interaction (a normalising 3-argument average first):
        # the second must still see the weights as entered (they do not sum to 1)
        for first in ("SRC_POP_AVG", "TGT_POP_AVG"):
            for second in AGGS:
                for wvar in (None, "alive"):
                    et = edge_types(dt, tier, reduced=True)[0]
                    spec = base_spec(["a", "b"], dt, init=dict(a={"pa": 100.0, "pb": 40.0}, b={"pa": 10.0, "pb": 0.0}))
                    spec["pops"] = ["pa", "pb"]
                    spec["transfers"] = [dict(name="mig", units="rate", pairs={"pa>pb": 0.1})]
                    add_edge(spec, "b", "a", et, name="rec")
                    spec["characs"].append(dict(name="alive", comps=["a", "b"]))
                    spec["characs"].append(dict(name="prev", comps=["b"], denom="alive"))
                    spec["interactions"] = [dict(name="mix", pairs={"pa>pa": 1.0, "pa>pb": 0.5, "pb>pa": 0.2, "pb>pb": 2.0})]
                    spec["pars"].append(dict(name="foi", fmt="probability", fn=f"{first}(prev, mix)", min=0, max=None))
                    spec["pars"].append(dict(name="press", fmt="probability", fn=f"{second}(prev, mix, {wvar})" if wvar else f"{second}(prev, mix)", min=0, max=None))
                    spec["pars"].append(dict(name="inf", fmt="probability", fn="foi*0.5+press*0.1+0.01"))
                    spec["links"].append(["a", "b", "inf"])
                    spec["tag"] = "pops"
                    yield spec


# ---------------------------------------------------------------- combined


def combined_spec(dt, v=0.3, dur=1.0, tj=0.2, pa=0.3, d=0.01, br=5.0, transfer=0.1, prog=True, end=None):
    s, e = span(dt)
    spec = dict(
        comps=[
            dict(name="sus", kind="ord", init=100.0),
            dict(name="vac", kind="ord", init=20.0),
            dict(name="jn", kind="junc", default=0),
            dict(name="ca", kind="ord", init=5.0),
            dict(name="cb", kind="ord", init=5.0),
            dict(name="dead", kind="sink"),
            dict(name="birth", kind="src"),
        ],
        pars=[
            dict(name="br", fmt="number", val=br),
            dict(name="vr", fmt="probability", val=v, targ=True, min=0),
            dict(name="dur", fmt="duration", val=dur, timed=True),
            dict(name="tj", fmt="rate", ts=0.5, val=tj),
            dict(name="pa", fmt="proportion", val=pa),
            dict(name="pb", fmt="proportion", fn="1-pa", min=0, max=1),
            dict(name="dr", fmt="rate", val=d),
        ],
        links=[["birth", "sus", "br"], ["sus", "vac", "vr"], ["vac", "sus", "dur"], ["sus", "jn", "tj"], ["jn", "ca", "pa"], ["jn", "cb", "pb"], ["sus", "dead", "dr"], ["vac", "dead", "dr"], ["ca", "dead", "dr"], ["cb", "dead", "dr"]],
        characs=[dict(name="alive", comps=["sus", "vac", "ca", "cb"], val=130.0)],
        pops=["pa1", "pb1"],
        transfers=[dict(name="age", units="rate", pairs={"pa1>pb1": transfer})] if transfer is not None else [],
        sim=[s, end or e, dt],
        tag="combined",
    )
    if prog:
        spec["progs"] = dict(
            progs=[dict(name="P1", pops=["pa1", "pb1"], comps=["sus"], spend=1000.0, uc=10.0, oneoff=True), dict(name="P2", pops=["pa1"], comps=["sus"], spend=400.0, uc=20.0, oneoff=True)],
            covouts=[dict(par="vr", pop="pa1", base=0.1, progs={"P1": 0.5, "P2": 0.8}, inter="random"), dict(par="vr", pop="pb1", base=0.1, progs={"P1": 0.5})],
            instr=dict(start=START + 1),
        )
    return spec


def combined(tier):
    dts = DTS[tier][:3] if tier == "quick" else [1.0, 0.25, 1 / 12, 0.3, 0.1]
    V = [0, 0.3, 5] if tier == "quick" else [0, 0.3, 1.0, 5]
    DUR = lambda dt: [0.4 * dt, 1.0, 5 / 12] if tier == "quick" else [0.4 * dt, dt, 1.0, 5 / 12, 2.5 * dt]
    TJ = [0, 0.2, 30]
    PA = [0.3, 1.0, 1.7] if tier == "quick" else [0.0, 0.3, 1.0, 1.7]
    DD = [0, 0.01, 2] if tier == "quick" else [0, 0.01, 0.5, 2]
    BR = [0, 5, 1e4]
    for dt in dts:
        for v, dur, tj, pa, d, br in itertools.product(V, DUR(dt), TJ, PA, DD, BR):
            for prog in (False, True):
                if prog and (tj == 30 or d == 2):
                    continue
                yield combined_spec(dt, v, dur, tj, pa, d, br, prog=prog)


def regress(tier):
    """inputs found by a thorough-tier run that once failed on the real code (kept in the quick tier so that the defect cannot come back unnoticed)"""
    import glob
    import json
    import os

    for f in sorted(glob.glob(os.path.join(os.path.dirname(os.path.abspath(__file__)), "regress", "*.json"))):
        with open(f) as fh:
            yield from json.load(fh)


VIAS = ("pickle", "deepcopy", "read_first")


def via(tier):
    """Other routes to an integrated model (build.World.run): the built model is pickled / deep-copied and the copy integrated (what the optimiser
    does with every model), or every reported quantity of the built model is read before integration.  Structures: the whole `pops`, `timed` and
    `regress` spaces and every 9th model of `combined` at dt = 0.25 (thorough: every 5th, every dt), plus models with an
    output-only parameter whose function depends on time alone."""
    import copy

    def base():
        for sp in (regress, pops, timed):
            for spec in sp(tier):
                if tier == "thorough" or spec.get("tag") == "regress" or abs(spec["sim"][2] - 0.25) < 1e-12:
                    yield spec
        k = 0
        for spec in combined(tier):
            if tier == "thorough" or abs(spec["sim"][2] - 0.25) < 1e-12:
                k += 1
                if k % (5 if tier == "thorough" else 9) == 0:
                    yield spec
        for dt in (0.25, 1.0):
            for prog in (False, True):
                spec = combined_spec(dt, prog=prog)
                spec["pars"].append(dict(name="disc", fmt="number", fn="exp(-0.03*(t-2000))"))
                spec["pars"].append(dict(name="dvac", fmt="number", fn="disc*vac"))
                yield spec

    for spec in base():
        for v in VIAS:
            s2 = copy.deepcopy(spec)
            s2["via"] = v
            s2["tag"] = "via"
            yield s2


def all_sim(tier, which=("regress", "flows", "junctions", "timed", "pops", "combined", "via")):
    g = dict(regress=regress, flows=flows, junctions=junctions, timed=timed, pops=pops, combined=combined, via=via)
    for w in which:
        yield from g[w](tier)
