"""
Reference simulator, written from the documentation (docs/general/Parameters.rst, Junctions.rst,
Timed-Transitions.rst, Programs.rst) and the wording of properties C03-C06.  Plain Python floats and
lists; shares no code with atomica.  Input: a model spec (mc/build.py format).  Output: Trace.

Documented semantics implemented here
  grid      t_k = start + k*dt, k = 0..K, K = ceil((end-start)/dt) up to rounding
  value     data (exact at years, linear between, flat outside / assumption) x y_factor x meta_y_factor
            -> function of same-step values (dependencies first) x factors  -> program outcome (converted)
            -> population aggregation -> clip to [min, max]
  fraction  probability/rate p: p*dt/T ; duration d: dt/(d*T) ; number N: N*dt/T / sum(source sizes) (0 if nobody);
            source compartment emits N*dt/T ; negative value -> 0 ; fractions summing > 1 are divided by their sum
  timed     chain of n = max(1, ceil(D/dt)) bins; bin 0 leaves next; time-preserving links do not act on bin 0;
            the flush carries whatever remains in bin 0; arrivals enter the last bin; same-group moves keep the bin
  junction  out_i = in * p_i / sum(p) ; residual variant: stated proportions, remainder to the residual link,
            sum > 1 scaled to 1 ; topological order ; initial contents pushed downstream before step 0
"""

import ast
import math

from mc.refprog import prog_prop_covered, prog_capacity, covout_outcome, interp_previous

EPS = 1e-9


def nsteps(x):
    """ceil(x) where x is an integer 'up to rounding error'"""
    r = round(x)
    if abs(x - r) < 1e-9 * max(1.0, abs(x)):
        return int(r)
    return int(math.ceil(x))


def tgrid(start, end, dt):
    K = nsteps((end - start) / dt)
    return [start + k * dt for k in range(K + 1)]


def interp_linear(v, t):
    """V = number | {"t": [...], "v": [...]} -> value at t (exact at years, linear between, flat outside)"""
    if not isinstance(v, dict):
        return float(v)
    ts, vs = zip(*sorted(zip(v["t"], v["v"])))
    if t <= ts[0]:
        return float(vs[0])
    if t >= ts[-1]:
        return float(vs[-1])
    for i in range(len(ts) - 1):
        if ts[i] <= t <= ts[i + 1]:
            w = (t - ts[i]) / (ts[i + 1] - ts[i])
            return float(vs[i] + w * (vs[i + 1] - vs[i]))
    raise AssertionError


def vfor(v, pop):
    if isinstance(v, dict) and "t" not in v:
        return v.get(pop)
    return v


# ------------------------------------------------------------------ expression evaluator (own, not atomica's)

_FUNCS = dict(max=max, min=min, exp=math.exp, floor=math.floor, log=math.log, sqrt=math.sqrt, abs=abs, cos=math.cos, sin=math.sin, ceil=math.ceil)


def _div(a, b):
    if a == 0:
        return 0.0
    if b == 0:
        return math.inf if a > 0 else -math.inf
    return a / b


def ev(node, env):
    if isinstance(node, ast.Expression):
        return ev(node.body, env)
    if isinstance(node, ast.Constant):
        return float(node.value)
    if isinstance(node, ast.Name):
        return env[node.id]
    if isinstance(node, ast.UnaryOp):
        x = ev(node.operand, env)
        return -x if isinstance(node.op, ast.USub) else +x
    if isinstance(node, ast.BinOp):
        a, b = ev(node.left, env), ev(node.right, env)
        if isinstance(node.op, ast.Add):
            return a + b
        if isinstance(node.op, ast.Sub):
            return a - b
        if isinstance(node.op, ast.Mult):
            return a * b
        if isinstance(node.op, ast.Div):
            return _div(a, b)
        if isinstance(node.op, ast.Pow):
            return a**b
    if isinstance(node, ast.Compare) and len(node.ops) == 1:
        a, b = ev(node.left, env), ev(node.comparators[0], env)
        op = node.ops[0]
        return float(a < b if isinstance(op, ast.Lt) else a > b if isinstance(op, ast.Gt) else a <= b if isinstance(op, ast.LtE) else a >= b)
    if isinstance(node, ast.Call) and isinstance(node.func, ast.Name):
        return float(_FUNCS[node.func.id](*[ev(a, env) for a in node.args]))
    raise ValueError("unsupported expression node " + type(node).__name__)


def names_in(expr):
    return {n.id for n in ast.walk(ast.parse(expr.replace(":", "___"), mode="eval")) if isinstance(n, ast.Name)} - set(_FUNCS)


AGG = ("SRC_POP_AVG", "SRC_POP_SUM", "TGT_POP_AVG", "TGT_POP_SUM")


class Trace:
    def __init__(self):
        self.t = []
        self.comp = {}  # (pop, comp) -> [total per index]
        self.rows = {}  # (pop, comp) -> [[bins] per index]  (timed only)
        self.link = {}  # (pop, src, dstpop, dst, par) -> [flow per index]
        self.linkrows = {}  # same key -> [[bins] per index] (time-preserving only)
        self.par = {}  # (pop, par) -> [value per index]
        self.charac = {}  # (pop, charac) -> [value per index]
        self.nbins = {}
        self.coverage = {}  # prog -> [fraction per index]


def simulate(spec, progs=True):
    start, end, dt = spec["sim"]
    T = tgrid(start, end, dt)
    pops = spec.get("pops") or ["pa"]
    comps = {c["name"]: c for c in spec["comps"]}
    kinds = {c["name"]: c.get("kind", "ord") for c in spec["comps"]}
    pars = {p["name"]: p for p in spec["pars"]}
    characs = {c["name"]: c for c in spec.get("characs", [])}
    timed_par = {p["name"] for p in spec["pars"] if p.get("timed")}
    group = {s: p for s, d, p in spec["links"] if p in timed_par}  # comp -> duration group

    # junction duration groups: all (indirect) non-junction neighbours in the same group
    def neighbours(j, seen=None):
        seen = seen or set()
        out = set()
        for s, d, p in spec["links"]:
            for a, b in ((s, d), (d, s)):
                if a == j and b not in seen:
                    if kinds[b] == "junc":
                        out |= neighbours(b, seen | {j})
                    else:
                        out.add(b)
        return out

    for j, k in kinds.items():
        if k == "junc":
            nb = neighbours(j)
            gs = {group.get(n) for n in nb}
            if len(gs) == 1 and None not in gs:
                group[j] = gs.pop()

    # ---- links (framework + transfers), per population
    links = []  # dict(pop, src, dpop, dst, par, kind) kind: 'par' | 'flush' | 'resid'
    for pop in pops:
        for s, d, p in spec["links"]:
            if p == ">":
                links.append(dict(pop=pop, src=s, dpop=pop, dst=d, par=None, kind="resid"))
            elif p in timed_par:
                links.append(dict(pop=pop, src=s, dpop=pop, dst=d, par=p, kind="flush"))
            else:
                links.append(dict(pop=pop, src=s, dpop=pop, dst=d, par=p, kind="par"))
    tpars = {}  # (pop, name) -> dict(units, val, yf...)
    for tr in spec.get("transfers", []):
        for pair, v in tr["pairs"].items():
            a, b = pair.split(">")
            name = f"{tr['name']}_{a}_to_{b}"
            tyf = tr.get("yf")  # calibration factors of the transfer: per destination population (dict keyed by the pair) or one number, and the all-population factor
            tyf = (tyf.get(pair, 1.0) if isinstance(tyf, dict) else (1.0 if tyf is None else tyf)) * (tr.get("myf") or 1.0)
            tpars[(a, name)] = dict(name=name, fmt=tr.get("units", "rate"), val=v, ts=None, factor=tyf)
            for c in spec["comps"]:
                if kinds[c["name"]] == "ord":
                    links.append(dict(pop=a, src=c["name"], dpop=b, dst=c["name"], par=name, kind="par"))
    for l in links:
        gs, gd = group.get(l["src"]), group.get(l["dst"])
        l["tp"] = l["kind"] != "flush" and gs is not None and gs == gd  # time preserving
        l["key"] = (l["pop"], l["src"], l["dpop"], l["dst"], l["par"] if l["kind"] != "resid" else ">")

    # ---- parameter order
    order = []
    deps = {}
    for n, p in pars.items():
        fn = p.get("fn")
        if fn and fn.startswith(AGG):
            args = [x.strip() for x in fn.split("(")[1].rstrip(")").split(",")]
            deps[n] = {args[0]} & set(pars)
        elif fn:
            deps[n] = names_in(fn) & set(pars)
        else:
            deps[n] = set()
    post = set()
    for n, p in pars.items():
        if p.get("fn") and not p["fn"].startswith(AGG) and any("___" in nm for nm in names_in(p["fn"])):
            post.add(n)
    grew = True
    while grew:
        grew = False
        for n in pars:
            if n not in post and deps[n] & post:
                post.add(n)
                grew = True
    done = set()
    while len(order) < len(pars):
        progress = False
        for n in pars:
            if n not in done and deps[n] <= done:
                order.append(n)
                done.add(n)
                progress = True
        if not progress:
            raise ValueError("cyclic parameter dependencies")

    scen = {(sc_["par"], sc_["pop"]): sc_ for sc_ in spec.get("scen", [])}

    def data_value(p, pop, t):
        """databook value at t, or the scenario overwrite from its first year onward (scenario values are data: they are scaled by the calibration factors too)"""
        sc_ = scen.get((p["name"], pop))
        if sc_ is not None and t >= min(sc_["t"]):
            ov = {"t": list(sc_["t"]), "v": list(sc_["y"])}
            return interp_previous(ov, t) if sc_.get("interp") == "previous" else interp_linear(ov, t)
        v = vfor(p.get("val"), pop)
        return None if v is None else interp_linear(v, t)

    def suspended(p, pop, t):
        sc_ = scen.get((p["name"], pop))
        return sc_ is not None and t >= min(sc_["t"])

    def scale(p, pop):
        yf = p.get("yf", 1.0)
        yf = yf.get(pop, 1.0) if isinstance(yf, dict) else (1.0 if yf is None else yf)
        return yf * (p.get("myf") or 1.0)

    def clip(p, v):
        if p.get("min") is not None and v < p["min"]:
            v = float(p["min"])
        if p.get("max") is not None and v > p["max"]:
            v = float(p["max"])
        return v

    # ---- timed bins
    tr_ = Trace()
    tr_.t = T
    nb = {}
    for pop in pops:
        for c, g in group.items():
            p = pars[g]
            if p.get("fn"):
                # a duration given by a function of other (databook) parameters and constants: the function value is the duration,
                # whatever is entered in the databook for the duration itself
                env = {"t": T[0], "dt": dt}
                for nm in names_in(p["fn"]):
                    if nm in pars:
                        q = pars[nm]
                        env[nm] = clip(q, data_value(q, pop, T[0]) * scale(q, pop))
                D = clip(p, ev(ast.parse(p["fn"], mode="eval"), env) * scale(p, pop)) * (p.get("ts") or 1.0)
            else:
                D = interp_linear(vfor(p["val"], pop), T[0]) * scale(p, pop) * (p.get("ts") or 1.0)
            nb[(pop, c)] = max(1, nsteps(D / dt))
    tr_.nbins = nb

    # ---- state
    stock = {}  # (pop, comp) -> float or list of bins
    for pop in pops:
        for c in spec["comps"]:
            n, k = c["name"], kinds[c["name"]]
            v0 = 0.0
            if k in ("ord", "junc") and c.get("init") is not None:
                v0 = interp_linear(vfor(c["init"], pop), T[0]) * (c.get("yf") or 1.0) * (c.get("myf") or 1.0)
            elif k in ("ord", "junc") and c.get("default") is not None:
                v0 = float(c["default"])
            if (pop, n) in nb and k == "ord":
                stock[(pop, n)] = [v0 / nb[(pop, n)]] * nb[(pop, n)]
            else:
                stock[(pop, n)] = v0

    def total(pop, n):
        s = stock[(pop, n)]
        return math.fsum(s) if isinstance(s, list) else s

    def charac_val(pop, n, reported=False):
        """reported=True: the value shown in results (0 when the numerator is below 1e-6 people); otherwise the same-step value functions see"""
        c = characs[n]
        v = 0.0
        for m in c["comps"]:
            v += charac_val(pop, m, reported) if m in characs else total(pop, m)
        if c.get("denom"):
            d = charac_val(pop, c["denom"], reported) if c["denom"] in characs else total(pop, c["denom"])
            if reported and v < 1e-6:
                v = 0.0
            elif d > 0:
                v = v / d
            elif v < 1e-6:
                v = 0.0
            else:
                v = math.inf
        return v

    # ---- programs
    P = spec.get("progs") if progs else None
    instr = P.get("instr") if P else None
    covouts = {(c["par"], c["pop"]): c for c in P["covouts"]} if P else {}

    # interactions
    inter = {}
    for it in spec.get("interactions", []):
        iyf = it.get("yf")
        inter[it["name"]] = {tuple(k.split(">")): v * (iyf.get(k, 1.0) if isinstance(iyf, dict) else (1.0 if iyf is None else iyf)) * (it.get("myf") or 1.0) for k, v in it["pairs"].items()}

    junc_order = []
    jset = [n for n, k in kinds.items() if k == "junc"]
    jdone = set()
    while len(junc_order) < len(jset):
        for j in jset:
            if j in jdone:
                continue
            ups = {s for s, d, p in spec["links"] if d == j and kinds[s] == "junc"}
            if ups <= jdone:
                junc_order.append(j)
                jdone.add(j)

    pval = {}

    def eval_pars(i):
        t = T[i]
        active = bool(P and instr and instr["start"] <= t and (instr.get("stop") is None or t <= instr["stop"]))
        cov = {}
        if active:
            for pr in P["progs"]:
                nel = sum(total(pp, cc) for pp in pr["pops"] for cc in pr["comps"])
                if instr.get("coverage") and pr["name"] in instr["coverage"]:
                    c = interp_previous(instr["coverage"][pr["name"]], t)
                    if pr.get("oneoff"):
                        c *= dt
                else:
                    if instr.get("capacity") and pr["name"] in instr["capacity"]:
                        cap = interp_previous(instr["capacity"][pr["name"]], t)
                        if pr.get("oneoff"):
                            cap *= dt
                    else:
                        spend = interp_previous(instr["alloc"][pr["name"]], t) if instr.get("alloc") and pr["name"] in instr["alloc"] else interp_previous(pr["spend"], t)
                        cap = prog_capacity(pr, spend, t, dt)
                    c = prog_prop_covered(pr, cap, nel, t)
                cov[pr["name"]] = min(c, 1.0)
            for k, v in cov.items():
                tr_.coverage.setdefault(k, {})[i] = v
        for n in order:
            p = pars[n]
            fn = p.get("fn")
            is_agg = bool(fn and fn.startswith(AGG))
            for pop in pops:
                v = data_value(p, pop, t)
                if v is not None:
                    v = v * scale(p, pop)
                if n in post:
                    pval[(pop, n)] = None
                    continue
                if fn and not is_agg and not suspended(p, pop, t):
                    env = dict(t=t, dt=dt)
                    for nm in names_in(fn):
                        if nm in ("t", "dt"):
                            continue
                        if nm in pars:
                            env[nm] = pval[(pop, nm)]
                        elif nm in characs:
                            env[nm] = charac_val(pop, nm)
                        elif nm in comps:
                            env[nm] = total(pop, nm)
                        else:
                            raise ValueError("unknown name " + nm)
                    v = scale(p, pop) * ev(ast.parse(fn.replace(":", "___"), mode="eval"), env)
                if active and (n, pop) in covouts:
                    co = covouts[(n, pop)]
                    v = covout_outcome(co, cov)
                    if p.get("fmt") == "number":
                        src = sum(total(pop, l["src"]) for l in links if l["pop"] == pop and l["par"] == n and l["kind"] == "par")
                        v = v * src / dt
                    elif p.get("fmt") in ("probability", "rate"):
                        v = v / dt
                pval[(pop, n)] = v
            if is_agg:
                kind, args = fn.split("(")[0], [x.strip() for x in fn.split("(")[1].rstrip(")").split(",")]
                var = args[0]
                W = inter[args[1]] if len(args) > 1 else None
                wv = args[2] if len(args) > 2 else None

                def value_of(pop, nm):
                    if nm in pars:
                        return pval[(pop, nm)]
                    if nm in characs:
                        return charac_val(pop, nm)
                    return total(pop, nm)

                for pop in pops:
                    num = den = 0.0
                    for other in pops:
                        if W is None:
                            w = 1.0
                        elif kind.startswith("SRC"):
                            w = W.get((other, pop), 0.0)  # flows from 'other' into this population
                        else:
                            w = W.get((pop, other), 0.0)
                        if not isinstance(w, (int, float)):
                            w = interp_linear(w, t)
                        if wv:
                            w = w * value_of(other, wv)
                        num += w * value_of(other, var)
                        den += w
                    if kind.endswith("AVG"):
                        v = num / den if den != 0 else num
                    else:
                        v = num
                    if not suspended(p, pop, t):
                        pval[(pop, n)] = scale(p, pop) * v
            for pop in pops:
                if pval[(pop, n)] is not None:
                    pval[(pop, n)] = clip(p, pval[(pop, n)])
        for (pop, n), p in tpars.items():
            v = interp_linear(p["val"], t) * p.get("factor", 1.0)
            v = max(v, 1e-6) if p["fmt"] == "duration" else max(v, 0.0)
            pval[(pop, n)] = v

    def split_junction(pop, j, inflow):
        """inflow: float or list of bins -> {link key: same shape}"""
        outs = [l for l in links if l["pop"] == pop and l["src"] == j]
        props = [(0.0 if l["kind"] == "resid" else pval[(pop, l["par"])]) for l in outs]
        has_res = any(l["kind"] == "resid" for l in outs)
        tot = sum(props)
        res = {}

        def mul(x, f):
            return [y * f for y in x] if isinstance(x, list) else x * f

        empty = (not any(inflow)) if isinstance(inflow, list) else (inflow == 0)
        if has_res:
            sc_ = 1.0 / tot if tot > 1 else 1.0
            used = None
            for l, p in zip(outs, props):
                if l["kind"] != "resid":
                    res[l["key"]] = mul(inflow, p * sc_)
            for l in outs:
                if l["kind"] == "resid":
                    if tot < 1:
                        assigned = [math.fsum(res[k][b] for k in res) for b in range(len(inflow))] if isinstance(inflow, list) else math.fsum(res.values())
                        res[l["key"]] = [x - a for x, a in zip(inflow, assigned)] if isinstance(inflow, list) else inflow - assigned
                    else:
                        res[l["key"]] = mul(inflow, 0.0)
        else:
            for l, p in zip(outs, props):
                if empty:
                    res[l["key"]] = mul(inflow, 0.0)
                else:
                    res[l["key"]] = mul(inflow, p / tot) if tot != 0 else mul(inflow, math.nan)
        return res

    def add_to(pop, n, amount):
        """amount (float) joins compartment as new arrivals / re-spread for initial flush"""
        s = stock[(pop, n)]
        if isinstance(s, list):
            tot = math.fsum(s) + amount
            stock[(pop, n)] = [tot / len(s)] * len(s)
        else:
            stock[(pop, n)] = s + amount

    def initial_flush():
        for j in junc_order:
            for pop in pops:
                x = stock[(pop, j)]
                if isinstance(x, list):
                    x = math.fsum(x)
                if x > 0:
                    outs = [l for l in links if l["pop"] == pop and l["src"] == j]
                    props = [(0.0 if l["kind"] == "resid" else pval[(pop, l["par"])]) for l in outs]
                    tot = sum(props)
                    has_res = any(l["kind"] == "resid" for l in outs)
                    if has_res:
                        sc_ = 1.0 / tot if tot >= 1 else 1.0
                        assigned = 0.0
                        for l, p in zip(outs, props):
                            if l["kind"] != "resid":
                                add_to(l["dpop"], l["dst"], x * p * sc_)
                                assigned += x * p * sc_
                        if tot < 1:
                            for l in outs:
                                if l["kind"] == "resid":
                                    add_to(l["dpop"], l["dst"], x - assigned)
                    else:
                        for l, p in zip(outs, props):
                            add_to(l["dpop"], l["dst"], x * p / tot if tot != 0 else math.nan)
                    stock[(pop, j)] = 0.0

    def compute_flows():
        """returns {link key: float or list(bins)}"""
        flow = {}
        # requested fractions per link
        frac = {}
        for (pop, n), v in list(pval.items()):
            p = pars.get(n) or tpars.get((pop, n))
            if p is None or p.get("fmt") == "proportion" or v is None:
                continue
            mine = [l for l in links if l["pop"] == pop and l["par"] == n and l["kind"] == "par"]
            if not mine:
                continue
            Tsc = p.get("ts") or 1.0
            if kinds[mine[0]["src"]] == "src":
                flow[mine[0]["key"]] = v * dt / Tsc if v > 0 else 0.0
                continue
            if v <= 0 or v != v:
                f = 0.0 if v == v else math.nan
            elif p["fmt"] in ("probability", "rate"):
                f = v * dt / Tsc
            elif p["fmt"] == "duration":
                f = dt / (v * Tsc)
            elif p["fmt"] == "number":
                amt = v * dt / Tsc
                n_src = sum(total(pop, l["src"]) for l in mine)
                f = min(amt / n_src, 1e300) if n_src > 0 else 0.0  # (cap: a sub-normal stock must not turn the request into inf)
            else:
                raise ValueError(p["fmt"])
            for l in mine:
                frac[l["key"]] = f
        for pop in pops:
            for c in spec["comps"]:
                n = c["name"]
                if kinds[n] != "ord":
                    continue
                outs = [l for l in links if l["pop"] == pop and l["src"] == n]
                s = stock[(pop, n)]
                if not isinstance(s, list):
                    tot = sum(frac.get(l["key"], 0.0) for l in outs)
                    r = 1.0 / tot if tot > 1 else 1.0
                    for l in outs:
                        flow[l["key"]] = frac.get(l["key"], 0.0) * s * r
                else:
                    nbin = len(s)
                    per_bin_out = [0.0] * nbin
                    tmp = {l["key"]: [0.0] * nbin for l in outs if l["kind"] == "par"}
                    for b in range(nbin):
                        act = [l for l in outs if l["kind"] == "par" and not (l["tp"] and b == 0)]
                        tot = sum(frac.get(l["key"], 0.0) for l in act)
                        r = 1.0 / tot if tot > 1 else 1.0
                        for l in act:
                            x = frac.get(l["key"], 0.0) * s[b] * r
                            tmp[l["key"]][b] = x
                            per_bin_out[b] += x
                    for l in outs:
                        if l["kind"] == "par":
                            flow[l["key"]] = tmp[l["key"]] if l["tp"] else math.fsum(tmp[l["key"]])
                        elif l["kind"] == "flush":
                            flow[l["key"]] = max(0.0, s[0] - per_bin_out[0])
        # junctions
        for j in junc_order:
            for pop in pops:
                ins = [l for l in links if l["dpop"] == pop and l["dst"] == j]
                if j in group:
                    # per-bin inflow; bins as in the upstream link
                    width = max(len(flow[l["key"]]) if isinstance(flow[l["key"]], list) else 1 for l in ins) if ins else 1
                    inflow = [0.0] * width
                    for l in ins:
                        f = flow[l["key"]]
                        f = f if isinstance(f, list) else [f]
                        for b, x in enumerate(f):
                            inflow[b] += x
                else:
                    inflow = 0.0
                    for l in ins:
                        f = flow[l["key"]]
                        inflow += math.fsum(f) if isinstance(f, list) else f
                flow.update(split_junction(pop, j, inflow))
        return flow

    def eval_post(i, flow):
        """output-only parameters: functions of this step's flows (people per year), evaluated after the flows are known"""
        t = T[i]
        for n in order:
            if n not in post:
                continue
            p = pars[n]
            for pop in pops:
                env = dict(t=t, dt=dt)
                for nm in names_in(p["fn"]):
                    if nm in ("t", "dt"):
                        continue
                    if "___" in nm:
                        parts = nm.split("___")
                        if len(parts) == 2 and parts[1] == "flow":
                            src = dst = ""
                            bypar = parts[0]  # 'par:flow' = all transitions driven by that parameter
                        else:
                            src, dst = parts[0], parts[1] if len(parts) > 1 else ""
                            bypar = parts[2] if len(parts) > 2 else ""
                        tot = 0.0
                        for l in links:
                            # a reference names compartments of the population it is evaluated in: 'src:...' = flows LEAVING src of this population
                            # (transfers to other populations included), ':dst' = flows ARRIVING in dst of this population (transfers from others included)
                            here = (l["pop"] == pop) if (src or not dst) else (l.get("dpop", l["pop"]) == pop)
                            if here and (not src or l["src"] == src) and (not dst or l["dst"] == dst) and (not bypar or l["par"] == bypar) and l["key"] in flow:
                                f = flow[l["key"]]
                                tot += math.fsum(f) if isinstance(f, list) else f
                        env[nm] = tot / dt
                    elif nm in pars:
                        env[nm] = pval[(pop, nm)]
                    elif nm in characs:
                        env[nm] = charac_val(pop, nm)
                    else:
                        env[nm] = total(pop, nm)
                v = scale(p, pop) * ev(ast.parse(p["fn"].replace(":", "___"), mode="eval"), env)
                pval[(pop, n)] = clip(p, v)

    def record(i, flow):
        if post:
            eval_post(i, flow)
        for pop in pops:
            for c in spec["comps"]:
                n = c["name"]
                s = stock[(pop, n)]
                tr_.comp.setdefault((pop, n), []).append(math.fsum(s) if isinstance(s, list) else s)
                if isinstance(s, list):
                    tr_.rows.setdefault((pop, n), []).append(list(s))
            for n in characs:
                tr_.charac.setdefault((pop, n), []).append(charac_val(pop, n, True))
        for (pop, n), v in pval.items():
            tr_.par.setdefault((pop, n), []).append(v)
        for k, f in flow.items():
            tr_.link.setdefault(k, []).append(math.fsum(f) if isinstance(f, list) else f)
            if isinstance(f, list):
                tr_.linkrows.setdefault(k, []).append(list(f))

    def step(flow):
        new = {}
        for pop in pops:
            for c in spec["comps"]:
                n = c["name"]
                k = kinds[n]
                s = stock[(pop, n)]
                if k == "src" or k == "junc":
                    new[(pop, n)] = 0.0 if k == "junc" else s
                    continue
                outs = [l for l in links if l["pop"] == pop and l["src"] == n]
                ins = [l for l in links if l["dpop"] == pop and l["dst"] == n]
                if not isinstance(s, list):
                    v = s
                    for l in outs:
                        f = flow[l["key"]]
                        v -= math.fsum(f) if isinstance(f, list) else f
                    for l in ins:
                        f = flow[l["key"]]
                        v += math.fsum(f) if isinstance(f, list) else f
                    new[(pop, n)] = v if (v > 0 or k == "sink") else 0.0
                else:
                    nbin = len(s)
                    v = list(s)
                    # outflows per bin: recompute from flows
                    for l in outs:
                        f = flow[l["key"]]
                        if isinstance(f, list):
                            for b in range(nbin):
                                v[b] -= f[b]
                    # ordinary outflows were computed per bin in compute_flows; redo the split to subtract per bin
                    ob = _ordinary_out_bins(pop, n)
                    for b in range(nbin):
                        v[b] -= ob[b]
                    # time-preserving inflows keep their bin
                    for l in ins:
                        f = flow[l["key"]]
                        if l["tp"] or (isinstance(f, list) and kinds[l["src"]] == "junc"):
                            f = f if isinstance(f, list) else [f]
                            if len(f) <= nbin:
                                for b, x in enumerate(f):
                                    v[b] += x
                            else:
                                for b in range(nbin):
                                    v[b] += f[b]
                                v[-1] += math.fsum(f[nbin:])
                    if nbin > 1:
                        v = v[1:] + [0.0]
                    for l in ins:
                        f = flow[l["key"]]
                        if not (l["tp"] or (isinstance(f, list) and kinds[l["src"]] == "junc")):
                            v[-1] += math.fsum(f) if isinstance(f, list) else f
                    new[(pop, n)] = [x if x > 0 else 0.0 for x in v]
        stock.update(new)

    _ob_cache = {}

    def _ordinary_out_bins(pop, n):
        return _ob_cache[(pop, n)]

    def compute_flows_with_bins():
        """wrapper that also records per-bin totals of ordinary (non time-preserving) outflows of timed compartments, flush included"""
        flow = compute_flows()
        # recompute per-bin ordinary outflow for timed compartments
        for pop in pops:
            for c in spec["comps"]:
                n = c["name"]
                s = stock[(pop, n)]
                if kinds[n] == "ord" and isinstance(s, list):
                    nbin = len(s)
                    outs = [l for l in links if l["pop"] == pop and l["src"] == n]
                    ob = [0.0] * nbin
                    # replicate the fraction logic
                    fr = {}
                    for l in outs:
                        if l["kind"] != "par":
                            continue
                        p = pars.get(l["par"]) or tpars.get((pop, l["par"]))
                        v = pval[(pop, l["par"])]
                        Tsc = p.get("ts") or 1.0
                        if v <= 0:
                            f = 0.0
                        elif p["fmt"] in ("probability", "rate"):
                            f = v * dt / Tsc
                        elif p["fmt"] == "duration":
                            f = dt / (v * Tsc)
                        else:
                            mine = [m for m in links if m["pop"] == pop and m["par"] == l["par"] and m["kind"] == "par"]
                            n_src = sum(total(pop, m["src"]) for m in mine)
                            f = min((v * dt / Tsc) / n_src, 1e300) if n_src > 0 else 0.0
                        fr[l["key"]] = f
                    for b in range(nbin):
                        act = [l for l in outs if l["kind"] == "par" and not (l["tp"] and b == 0)]
                        tot = sum(fr[l["key"]] for l in act)
                        r = 1.0 / tot if tot > 1 else 1.0
                        for l in act:
                            if not l["tp"]:
                                ob[b] += fr[l["key"]] * s[b] * r
                    for l in outs:
                        if l["kind"] == "flush":
                            ob[0] += flow[l["key"]]
                    _ob_cache[(pop, n)] = ob
        return flow

    # ---- run
    eval_pars(0)
    initial_flush()
    eval_pars(0)
    for i in range(len(T)):
        if i > 0:
            eval_pars(i)
        flow = compute_flows_with_bins()
        record(i, flow)
        if i < len(T) - 1:
            step(flow)
    return tr_
