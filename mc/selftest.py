"""Unit tests of the machinery itself (run by MANIFEST.setup_cmd). Fast (< 30 s)."""
import sys, os, json
sys.path.insert(0, os.path.dirname(os.path.dirname(os.path.abspath(__file__))))
os.environ.setdefault("MPLBACKEND", "agg")


def test_build_and_balance():
    from mc import simspace, oracles
    from mc.build import run_spec
    spec = simspace.combined_spec(0.25)
    w, r = run_spec(spec)
    assert not oracles.balance(r) and not oracles.sane(r)
    # the oracle must notice a lost person
    c = r.model.pops[0].comps[0]
    c.vals[3] += 1.0
    assert oracles.balance(r), "balance oracle is blind"


def main():
    n = 0
    for k, f in sorted(globals().items()):
        if k.startswith("test_"):
            f(); n += 1
    extra = os.path.join(os.path.dirname(__file__), "selftests")
    if os.path.isdir(extra):
        import importlib
        for fn in sorted(os.listdir(extra)):
            if fn.startswith("t_") and fn.endswith(".py"):
                m = importlib.import_module("mc.selftests." + fn[:-3])
                for k, f in sorted(vars(m).items()):
                    if k.startswith("test_"):
                        f(); n += 1
    print(f"selftest: {n} tests ok")


if __name__ == "__main__":
    main()
