"""Unit tests of the machinery itself: reference models against closed forms, oracles against planted faults, enumerators against counts."""
import math
import numpy as np


def test_refsim_exponential_decay():
    from mc import refsim
    spec = dict(comps=[dict(name="a", kind="ord", init=100.0), dict(name="b", kind="ord", init=0.0)], pars=[dict(name="r", fmt="probability", val=0.2)], links=[["a", "b", "r"]], characs=[], pops=["pa"], sim=[2000.0, 2005.0, 0.5])
    tr = refsim.simulate(spec)
    assert len(tr.t) == 11
    for k, v in enumerate(tr.comp[("pa", "a")]):
        assert abs(v - 100.0 * (1 - 0.2 * 0.5) ** k) < 1e-9
    assert abs(tr.comp[("pa", "a")][-1] + tr.comp[("pa", "b")][-1] - 100.0) < 1e-9


def test_refsim_timed_steady_state():
    # constant inflow N per year into a timed compartment of duration D: steady state occupancy N*D
    from mc import refsim
    spec = dict(comps=[dict(name="a", kind="ord", init=0.0), dict(name="b", kind="ord", init=0.0), dict(name="s", kind="src")], pars=[dict(name="d", fmt="duration", val=1.5, timed=True), dict(name="n", fmt="number", val=40.0)], links=[["a", "b", "d"], ["s", "a", "n"]], characs=[], pops=["pa"], sim=[2000.0, 2006.0, 0.25])
    tr = refsim.simulate(spec)
    assert tr.nbins[("pa", "a")] == 6
    assert abs(tr.comp[("pa", "a")][-1] - 40.0 * 1.5) < 1e-9


def test_refsim_junction_tables():
    # the residual junction rules of Junctions.rst: stated proportions, remainder to the residual, sum > 1 scaled
    from mc import refsim
    def run(p1, p2):
        spec = dict(comps=[dict(name="a", kind="ord", init=100.0), dict(name="b", kind="ord", init=0.0), dict(name="c", kind="ord", init=0.0), dict(name="d", kind="ord", init=0.0), dict(name="j", kind="junc", default=0)],
                    pars=[dict(name="t", fmt="probability", val=1.0), dict(name="p1", fmt="proportion", val=p1), dict(name="p2", fmt="proportion", val=p2)],
                    links=[["a", "j", "t"], ["j", "b", "p1"], ["j", "c", "p2"], ["j", "d", ">"]], characs=[], pops=["pa"], sim=[2000.0, 2001.0, 1.0])
        tr = refsim.simulate(spec)
        return [tr.comp[("pa", x)][1] for x in "bcd"]
    assert np.allclose(run(0.2, 0.3), [20, 30, 50])
    assert np.allclose(run(0.5, 0.5), [50, 50, 0])
    assert np.allclose(run(1.0, 1.0), [50, 50, 0])
    assert np.allclose(run(0.0, 0.0), [0, 0, 100])


def test_refprog_additive_example_from_docs():
    # Programs.rst: P1 0.54?, the documented example: 6% covered by P1+P3 and 4% by P2+P3 when P3 has 10% left over
    from mc import refprog
    W = refprog.weights("additive", ["P1", "P2", "P3"], dict(P1=0.54, P2=0.36, P3=0.2))
    assert abs(W[frozenset(["P1", "P3"])] - 0.06) < 1e-12 and abs(W[frozenset(["P2", "P3"])] - 0.04) < 1e-12
    assert abs(sum(W.values()) - 1.0) < 1e-12
    for k, c in dict(P1=0.54, P2=0.36, P3=0.2).items():
        assert abs(sum(w for S, w in W.items() if k in S) - c) < 1e-12


def test_oracles_see_planted_faults():
    from mc import simspace, oracles
    from mc.build import run_spec
    from mc.props import c02, c04
    spec = simspace.combined_spec(0.25, v=5, d=2)
    w, r = run_spec(spec)
    assert not oracles.sane(r) and not c02.scaling(r)[0]
    # plant: break the common scaling factor of one competing outflow
    pop = r.model.pops[0]
    sus = pop.get_comp("sus")
    sus.outlinks[0].vals[2] *= 0.5
    assert c02.scaling(r)[0], "ratio oracle is blind"
    # plant: a junction that keeps people
    w, r = run_spec(spec)
    j = r.model.pops[0].get_comp("jn")
    j.outlinks[0].vals[3] += 1.0
    assert c04.shares(r)[0], "junction share oracle is blind"


def test_schedule_enumerator_counts():
    from mc.vpool import schedules
    bell = {(3, 3): 5, (4, 4): 15, (5, 5): 52, (5, 2): 16, (4, 1): 1}
    for (n, w), c in bell.items():
        assert len(set(schedules(n, w))) == c == len(list(schedules(n, w)))


def test_asd_path_enumeration_is_complete():
    from mc.asdctl import scripted, explore
    import sciris as sc
    seen = []
    def run(prefix):
        with scripted(prefix) as rng:
            sc.asd(lambda x: float(np.sum((np.array(x) - 3) ** 2)), [1.0, 1.0], maxiters=2, verbose=0)
        return rng, None
    paths = [tuple(p) for p, _ in explore(run, 4, max_draws=2)]
    assert len(paths) == len(set(paths)) == 16, paths


def test_snapshot_detects_private_cache_change():
    import atomica as at
    from mc.snapshot import snap_hash
    c = at.Covout("p", "q", {"A": 0.5, "B": 0.9}, baseline=0.1)
    h = snap_hash(c)
    c._deltas[0] += 1e-12
    assert snap_hash(c) != h
