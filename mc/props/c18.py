"""C18 - input files are accepted and runnable, or rejected with the dedicated error"""

import copy
import glob
import io
import os
import re
import traceback
import warnings

import numpy as np
import sciris as sc
import atomica as at
from atomica.framework import InvalidFramework
import itertools
from atomica.cascade import InvalidCascade
from atomica.data import InvalidDatabook
from atomica.programs import InvalidProgramBook

from mc import simspace, xlsxmut as X
from mc.oracles import V
from mc.build import World, build_data, build_progset

warnings.filterwarnings("ignore")

LEVEL = "exploration"
RULE = (
    "Base files: generated valid frameworks (one per structure class) written both by atomica and by an independent writer using user spellings (Title Case headings, capitalised units, blank optional columns), their databooks and "
    "program books, and every framework / databook / program book shipped in the library. Valid files must load, give a blank databook that reads back, and run without NaN. Then the catalogue of single-rule mutations "
    "(each with a known verdict) is applied at EVERY applicable site (every row / column / cell / sheet where the rule can be broken): 'reject' mutations must raise InvalidFramework / InvalidCascade / InvalidDatabook / InvalidProgramBook, "
    "any other exception type is an internal error, silent acceptance is a violation; 'accept' mutations must still load and run. Non-trivial = mutated files."
)
ASSUMPTIONS = [
    "totality of the validators is approached by the catalogue x all sites, not decided for arbitrary byte strings",
    "a mutation's verdict comes from the catalogue (documented rules), never from the library's behaviour",
    "library files whose shipped content is itself invalid by design (tests/ fixtures named *bad* / *invalid*) are not used as base files",
]
CASE_TIMEOUT = 600
DEDICATED = (InvalidFramework, InvalidCascade, InvalidDatabook, InvalidProgramBook)


def base_spec():
    spec = simspace.combined_spec(0.25, v=0.3, dur=1.0, tj=0.2, pa=0.3, d=0.01, br=5.0, prog=True)
    spec["pars"] += [dict(name="f1", fmt=None, fn="vr*2"), dict(name="f2", fmt=None, fn="f1+0.1"), dict(name="dflt", fmt="number", val=3.0, default=3.0)]  # dflt: a databook quantity with a framework default
    spec["characs"].append(dict(name="sv", comps=["sus", "vac"]))
    spec["cascades"] = {"main": [("everyone", "alive"), ("sus or vac", "sv"), ("vaccinated", "vac")]}
    return spec


def gen_specs():
    from mc.props import c06

    yield "combined", base_spec()
    yield "agg", c06.model("agg", 0.25, "three", 1.0, 1.0, "both", True, None)
    yield "state", c06.model("state", 0.5, "one", 1.0, 1.0, "min", True, None)
    for t in simspace.timed("quick"):
        if t["timed"]["struct"] in ("group_resjunction", "two_pops", "group") and t["timed"]["D"] == "3dt" and t["timed"]["extra"] == 0.3 and t["timed"]["ainit"] == 60.0 and t["sim"][2] == 0.25:
            yield "timed_" + t["timed"]["struct"], t
    for j in simspace.junctions("quick"):
        g = j["gadget"]
        if g["ok"] and g["psrc"] == "const" and g["jinit"] == 50.0 and g["props"][0] == 0.5 and all(p == 0.5 for p in g["props"]) and j["sim"][2] == 0.25 and not g.get("two_in"):
            yield "junction_" + g["name"], j


# ------------------------------------------------------------------ framework mutation catalogue
# each entry: (rule, verdict, function(model) -> list of (site label, mutated model))


def _sites_rows(model, sheet):
    return X.rows(model, sheet)


def cat_framework(model, spec):
    out = []

    def add(rule, verdict, site, m):
        out.append((rule, verdict, site, m))

    # delete the required sheet
    m = X.clone(model)
    del m["Parameters"]
    add("delete-required-sheet", "reject", "Parameters", m)
    # delete required columns
    for sheet, col in (("Compartments", "Display Name"), ("Parameters", "Display Name"), ("Parameters", "Format"), ("Characteristics", "Display Name"), ("Characteristics", "Components"), ("Compartments", "Code Name"), ("Parameters", "Code Name")):
        m = X.clone(model)
        X.drop_columns(m, sheet, [col])
        add("delete-required-column", "reject", f"{sheet}/{col}", m)
    # blank optional columns -> still valid
    for sheet, col in (("Compartments", "Setup Weight"), ("Compartments", "Guidance"), ("Parameters", "Guidance"), ("Parameters", "Maximum Value"), ("Characteristics", "Setup Weight"), ("Characteristics", "Default Value"), ("Characteristics", "Denominator")):
        tab = X.table(model, sheet)
        i = X.col_index(tab, col)
        m = X.clone(model)
        X.blank_column(m, sheet, col)
        add("blank-optional-column", "accept", f"{sheet}/{col}", m)
    for sheet, col in (("Compartments", "Guidance"), ("Parameters", "Guidance"), ("Parameters", "Minimum Value"), ("Parameters", "Maximum Value")):
        m = X.clone(model)
        X.drop_columns(m, sheet, [col])
        add("delete-optional-column", "accept", f"{sheet}/{col}", m)
    # blank a required cell (display name) at every row
    for sheet in ("Compartments", "Parameters", "Characteristics"):
        for r in X.rows(model, sheet):
            m = X.clone(model)
            X.set_cell(m, sheet, r, "Display Name", None)
            add("blank-required-cell", "reject", f"{sheet}/{r}/Display Name", m)
    for r in X.rows(model, "Characteristics"):
        m = X.clone(model)
        X.set_cell(m, "Characteristics", r, "Components", None)
        add("blank-required-cell", "reject", f"Characteristics/{r}/Components", m)
    # undefined references
    for r in X.rows(model, "Characteristics"):
        m = X.clone(model)
        X.set_cell(m, "Characteristics", r, "Components", str(X.get_cell(model, "Characteristics", r, "Components")) + ",nosuchcomp")
        add("undefined-compartment-in-characteristic", "reject", f"Characteristics/{r}", m)
        m = X.clone(model)
        X.set_cell(m, "Characteristics", r, "Denominator", "nosuchdenom")
        add("undefined-denominator", "reject", f"Characteristics/{r}", m)
    mat = X.table(model, "Transitions")
    for i in range(1, len(mat)):
        for j in range(1, len(mat[i])):
            if mat[i][j]:
                m = X.clone(model)
                X.table(m, "Transitions")[i][j] = "nosuchpar"
                add("undefined-parameter-in-transitions", "reject", f"Transitions/{mat[i][0]}->{mat[0][j]}", m)
    for r in X.rows(model, "Parameters"):
        if X.get_cell(model, "Parameters", r, "Function"):
            m = X.clone(model)
            X.set_cell(m, "Parameters", r, "Function", str(X.get_cell(model, "Parameters", r, "Function")) + "+nosuchquantity")
            add("undefined-name-in-function", "reject", f"Parameters/{r}", m)
            # flow-rate references (source:destination, source:, :destination, parameter:flow) with an undefined end
            c0 = X.rows(model, "Compartments")[0]
            for ref in (f"{c0}:nosuchcomp", f"nosuchcomp:{c0}", ":nosuchcomp", "nosuchcomp:", "nosuchcomp:nosuchcomp2", "nosuchpar:flow"):
                m = X.clone(model)
                X.set_cell(m, "Parameters", r, "Function", str(X.get_cell(model, "Parameters", r, "Function")) + "+" + ref)
                add("undefined-end-of-flow-reference", "reject", f"Parameters/{r} + {ref}", m)
            m = X.clone(model)
            X.set_cell(m, "Parameters", r, "Function", f"foo({X.get_cell(model, 'Parameters', r, 'Function')})")
            add("unsupported-function-call", "reject", f"Parameters/{r}", m)
            m = X.clone(model)
            X.set_cell(m, "Parameters", r, "Function", f"{r}+1")
            add("self-referencing-function", "reject", f"Parameters/{r}", m)
            m = X.clone(model)
            X.set_cell(m, "Parameters", r, "Function", str(X.get_cell(model, "Parameters", r, "Function")) + "+*2")
            add("syntax-error-in-function", "reject", f"Parameters/{r}", m)
            m = X.clone(model)
            X.set_cell(m, "Parameters", r, "Function", "SRC_POP_AVG(sus+vac)")
            add("aggregation-of-an-expression", "reject", f"Parameters/{r}", m)
            m = X.clone(model)
            X.set_cell(m, "Parameters", r, "Function", "vr.real")
            add("attribute-access-in-function", "reject", f"Parameters/{r}", m)
    # cyclic functions f1 <-> f2 (only if both exist)
    if "f1" in X.rows(model, "Parameters") and "f2" in X.rows(model, "Parameters"):
        m = X.clone(model)
        X.set_cell(m, "Parameters", "f1", "Function", "f2*2")
        add("cyclic-functions", "reject", "Parameters/f1<->f2", m)
    # circular dependencies through a population aggregation
    if "f1" in X.rows(model, "Parameters") and "f2" in X.rows(model, "Parameters"):
        for agg in ("SRC_POP_AVG", "SRC_POP_SUM", "TGT_POP_AVG", "TGT_POP_SUM"):
            m = X.clone(model)
            X.set_cell(m, "Parameters", "f1", "Function", f"{agg}(f2)")
            X.set_cell(m, "Parameters", "f2", "Function", "f1*2")
            add("cyclic-functions-through-aggregation", "reject", f"Parameters/f1={agg}(f2), f2=f1*2", m)
            m = X.clone(model)
            X.set_cell(m, "Parameters", "f2", "Function", f"{agg}(f2)")
            add("self-referencing-aggregation", "reject", f"Parameters/f2={agg}(f2)", m)
    # duplicate code names and display names (adjacent pairs on every sheet, and across sheets)
    for sheet in ("Compartments", "Parameters", "Characteristics"):
        rs = X.rows(model, sheet)
        for a, b in zip(rs, rs[1:]):
            m = X.clone(model)
            X.set_cell(m, sheet, b, "Display Name", X.get_cell(model, sheet, a, "Display Name"))
            add("duplicate-display-name", "reject", f"{sheet}/{a},{b}", m)
    # a display name used on two different sheets (every ordered pair of sheets, first row of each)
    sheets_ = [sh for sh in ("Compartments", "Characteristics", "Parameters", "Interactions") if sh in model and X.rows(model, sh)]
    for sa, sb in itertools.permutations(sheets_, 2):
        m = X.clone(model)
        X.set_cell(m, sb, X.rows(model, sb)[0], "Display Name", X.get_cell(model, sa, X.rows(model, sa)[0], "Display Name"))
        add("duplicate-display-name-across-sheets", "reject", f"{sb}/{X.rows(model, sb)[0]} = {sa}/{X.rows(model, sa)[0]}", m)
    if X.rows(model, "Parameters") and X.rows(model, "Compartments"):
        cname = X.rows(model, "Compartments")[0]
        pn = X.rows(model, "Parameters")[-1]
        m = X.clone(model)
        for row in X.table(m, "Parameters")[1:]:
            if row[0] == pn:
                row[0] = cname
        add("duplicate-code-name-across-sheets", "reject", f"Parameters/{pn}={cname}", m)
    for sheet in ("Compartments", "Parameters"):
        rs = X.rows(model, sheet)
        if len(rs) >= 2:
            m = X.clone(model)
            X.table(m, sheet)[2][0] = rs[0]
            add("duplicate-code-name", "reject", f"{sheet}/{rs[0]}", m)
    # reserved names / symbols: rename the last parameter that has no links and no dependants (f2)
    if "f2" in X.rows(model, "Parameters"):
        for bad in ("t", "flow", "all", "dt", "total", "max", "exp", "a:b", "a,b", "a b", "a+b", "a*b", "a@b"):
            m = X.clone(model)
            for row in X.table(m, "Parameters")[1:]:
                if row[0] == "f2":
                    row[0] = bad
            add("reserved-name-or-symbol", "reject", f"Parameters/f2->{bad!r}", m)
    # units
    kinds = {c["name"]: c.get("kind", "ord") for c in spec["comps"]}
    pfmt = {p["name"]: p.get("fmt") for p in spec["pars"]}
    for s, d, p in spec["links"]:
        if p == ">" or p not in pfmt:
            continue
        if kinds[s] == "junc":
            for bad in ("Probability", "Number", "Rate", "Duration"):
                m = X.clone(model)
                X.set_cell(m, "Parameters", p, "Format", bad)
                add("wrong-unit-on-junction-outflow", "reject", f"{p}:{bad}", m)
            m = X.clone(model)
            X.set_cell(m, "Parameters", p, "Timescale", 0.5)
            add("timescale-on-proportion", "reject", p, m)
        elif kinds[s] == "src":
            for bad in ("Probability", "Rate", "Duration", "Proportion"):
                m = X.clone(model)
                X.set_cell(m, "Parameters", p, "Format", bad)
                add("wrong-unit-on-source-outflow", "reject", f"{p}:{bad}", m)
        elif kinds[s] == "ord" and not any(q.get("timed") for q in spec["pars"] if q["name"] == p):
            m = X.clone(model)
            X.set_cell(m, "Parameters", p, "Format", "Proportion")
            add("proportion-outside-junction", "reject", p, m)
            m = X.clone(model)
            X.set_cell(m, "Parameters", p, "Format", None)
            add("transition-without-units", "reject", p, m)
            m = X.clone(model)
            X.set_cell(m, "Parameters", p, "Format", "bananas")
            add("unknown-unit-on-transition", "reject", p, m)
    # one parameter on links of two kinds: the unit rule holds for EVERY link of the parameter, not for some of them
    mat0 = X.table(model, "Transitions")
    names0 = mat0[0][1:]
    jpars = sorted({p for s, d, p in spec["links"] if p in pfmt and kinds[s] == "junc"})
    opars = sorted({p for s, d, p in spec["links"] if p in pfmt and kinds[s] == "ord" and pfmt[p] in ("rate", "probability") and not any(q.get("timed") for q in spec["pars"] if q["name"] == p)})
    jcomps = [n for n, k in kinds.items() if k == "junc"]
    ocomps = [n for n, k in kinds.items() if k == "ord"]
    for jp in jpars:
        for o in ocomps:
            for d in ocomps:
                if d != o:
                    m = X.clone(model)
                    tab = X.table(m, "Transitions")
                    cell = tab[1 + names0.index(o)][1 + names0.index(d)]
                    for val, how in ((jp, "replaces"), (f"{cell}, {jp}" if cell else None, "joins")):
                        if val is None:
                            continue
                        m = X.clone(model)
                        X.table(m, "Transitions")[1 + names0.index(o)][1 + names0.index(d)] = val
                        add("proportion-also-on-ordinary-outflow", "reject", f"{jp} {how} {o}->{d}", m)
                    break
    for op in opars[:2]:
        for j in jcomps:
            for d in ocomps:
                cell = mat0[1 + names0.index(j)][1 + names0.index(d)]
                if cell and cell != ">":
                    m = X.clone(model)
                    X.table(m, "Transitions")[1 + names0.index(j)][1 + names0.index(d)] = f"{cell}, {op}"
                    add("ordinary-unit-also-on-junction-outflow", "reject", f"{op} joins {j}->{d}", m)
                    break
    sinks = [n for n, k in kinds.items() if k == "sink"]
    mat = X.table(model, "Transitions")
    names = mat[0][1:]
    ordn = [n for n, k in kinds.items() if k == "ord"]
    for sk in sinks:
        m = X.clone(model)
        X.table(m, "Transitions")[1 + names.index(sk)][1 + names.index(ordn[0])] = [p for p in pfmt if pfmt[p] == "rate"][0]
        add("outflow-from-sink", "reject", sk, m)
    srcs = [n for n, k in kinds.items() if k == "src"]
    for sr in srcs:
        m = X.clone(model)
        X.table(m, "Transitions")[1 + names.index(ordn[0])][1 + names.index(sr)] = [p for p in pfmt if pfmt[p] == "rate"][0]
        add("inflow-into-source", "reject", sr, m)
    # timed parameter misuse
    for q in spec["pars"]:
        if q.get("timed"):
            m = X.clone(model)
            X.set_cell(m, "Parameters", q["name"], "Format", "Rate")
            add("timed-parameter-not-duration", "reject", q["name"], m)
            m = X.clone(model)
            X.set_cell(m, "Parameters", q["name"], "Targetable", "y")
            add("timed-parameter-targetable", "reject", q["name"], m)
    # cascades
    if "Cascades" in model:
        nst = len(X.table(model, "Cascades")) - 1
        for i, j in itertools.combinations(range(1, nst + 1), 2):
            # the stages of the valid cascade are strictly nested, so exchanging any two of them breaks the nesting somewhere
            m = X.clone(model)
            tab = X.table(m, "Cascades")
            tab[i], tab[j] = tab[j], tab[i]
            add("un-nested-cascade", "reject", f"Cascades/swap stages {i} and {j}", m)
        m = X.clone(model)
        X.table(m, "Cascades")[1][1] = "nosuchthing"
        add("undefined-cascade-constituent", "reject", "Cascades/stage 1", m)
    # invalid y/n content
    for col in ("Is Sink", "Is Source", "Is Junction"):
        m = X.clone(model)
        X.set_cell(m, "Compartments", X.rows(model, "Compartments")[0], col, "maybe")
        add("invalid-flag-value", "reject", f"Compartments/{col}", m)
    return out


def classify(exc):
    if isinstance(exc, DEDICATED):
        return "dedicated"
    return "internal"


def raise_site(exc):
    fr = None
    for f in traceback.extract_tb(exc.__traceback__):
        if "/atomica/" in f.filename.replace("\\", "/"):
            fr = f
    return f"{os.path.basename(fr.filename)}:{fr.name}" if fr else "?"


def try_framework(blob):
    try:
        F = at.ProjectFramework(X.spreadsheet(blob))
        return F, None
    except Exception as e:  # noqa
        return None, e


def runnable(F, spec):
    """blank databook reads back; filled databook builds and runs without NaN.  Returns error string or None"""
    D0 = at.ProjectData.new(F, np.arange(2000, 2003), pops={p: "Pop " + p for p in (spec.get("pops") or ["pa"])}, transfers={t["name"]: "T " + t["name"] for t in spec.get("transfers", [])})
    D1 = at.ProjectData.from_spreadsheet(D0.to_spreadsheet(), F)
    D = build_data(spec, F)
    D2 = at.ProjectData.from_spreadsheet(D.to_spreadsheet(), F)
    P = at.Project(framework=F, databook=D2, do_run=False)
    s, e, dt = spec["sim"]
    P.settings.update_time_vector(start=s, end=e, dt=dt)
    r = P.run_sim(P.parsets[0], store_results=False)
    for pop in r.model.pops:
        for c in pop.comps:
            if not np.all(np.isfinite(np.asarray(c.vals, dtype=float))):
                return f"compartment {pop.name}/{c.name} is not finite"
    return None


def cases(tier):
    for name, _ in gen_specs():
        yield dict(kind="valid_generated", name=name)
    for f in sorted(glob.glob(str(at.LIBRARY_PATH / "*_framework.xlsx"))):
        yield dict(kind="valid_library", name=os.path.basename(f).replace("_framework.xlsx", ""))
    yield dict(kind="framework_mutations", name="combined")
    if tier == "thorough":
        for name, _ in gen_specs():
            if name != "combined":
                yield dict(kind="framework_mutations", name=name)
    yield dict(kind="databook_mutations")
    yield dict(kind="databook_mutations", blank_pop_types=True)
    yield dict(kind="databook_names")
    yield dict(kind="progbook_mutations")


def run_valid_generated(case):
    spec = dict(gen_specs())[case["name"]]
    vs = []
    n = 0
    w = World(spec)
    variants = [("atomica-writer", w.F.to_spreadsheet().tofile().getvalue() if hasattr(w.F.to_spreadsheet().tofile(), "getvalue") else None)]
    for cap in (False, True):
        for blank in (False, True):
            variants.append((f"user-writer(cap_units={cap},blank_optional={blank})", X.to_bytes(X.user_framework(spec, cap_units=cap, blank_optional=blank))))
    for label, blob in variants:
        if blob is None:
            continue
        n += 1
        F, err = try_framework(blob)
        if err is not None:
            vs.append(V(f"valid-framework-rejected:{type(err).__name__}@{raise_site(err)}", f"{case['name']} written by {label}: valid framework rejected with {type(err).__name__}: {str(err)[:160]}", None))
            continue
        try:
            msg = runnable(F, spec)
            if msg:
                vs.append(V("valid-framework-not-runnable", f"{case['name']} written by {label}: {msg}", None))
        except Exception as e:  # noqa
            vs.append(V(f"valid-framework-not-runnable:{type(e).__name__}@{raise_site(e)}", f"{case['name']} written by {label}: blank databook / filled run failed with {type(e).__name__}: {str(e)[:160]}", None))
    # program book of the generated spec
    if spec.get("progs"):
        try:
            ps2 = at.ProgramSet.from_spreadsheet(w.progset.to_spreadsheet(), framework=w.F, data=w.D)
        except Exception as e:  # noqa
            vs.append(V(f"valid-progbook-rejected:{type(e).__name__}@{raise_site(e)}", f"{case['name']}: valid program book rejected: {str(e)[:160]}", None))
    return dict(states=0, transitions=0, nontrivial=True, violations=vs[:5], counters=dict(valid_files=n))


def run_valid_library(case):
    name = case["name"]
    vs = []
    fw = at.LIBRARY_PATH / f"{name}_framework.xlsx"
    try:
        F = at.ProjectFramework(fw)
    except Exception as e:  # noqa
        vs.append(V(f"valid-framework-rejected:{type(e).__name__}@{raise_site(e)}", f"library framework {name}: rejected with {type(e).__name__}: {str(e)[:160]}", None))
        return dict(states=0, transitions=0, nontrivial=True, violations=vs, counters=dict(library_files=1))
    n = 1
    try:
        pops = 2
        D0 = at.ProjectData.new(F, np.arange(2000, 2003), pops=pops, transfers=0)
        at.ProjectData.from_spreadsheet(D0.to_spreadsheet(), F)
    except Exception as e:  # noqa
        vs.append(V(f"blank-databook-fails:{type(e).__name__}@{raise_site(e)}", f"library framework {name}: blank databook does not read back: {type(e).__name__}: {str(e)[:160]}", None))
    db = at.LIBRARY_PATH / f"{name}_databook.xlsx"
    if db.exists():
        n += 1
        try:
            P = at.Project(framework=F, databook=db, do_run=False)
            P.settings.update_time_vector(end=P.settings.sim_start + 5)
            r = P.run_sim(P.parsets[0], store_results=False)
            pb = at.LIBRARY_PATH / f"{name}_progbook.xlsx"
            if pb.exists():
                n += 1
                ps = at.ProgramSet.from_spreadsheet(pb, framework=F, data=P.data)
                P.run_sim(P.parsets[0], ps, at.ProgramInstructions(start_year=P.settings.sim_start + 2), store_results=False)
        except Exception as e:  # noqa
            vs.append(V(f"library-files-fail:{type(e).__name__}@{raise_site(e)}", f"library model {name}: shipped databook / program book do not load and run: {type(e).__name__}: {str(e)[:160]}", None))
    return dict(states=0, transitions=0, nontrivial=True, violations=vs[:3], counters=dict(library_files=n))


def run_framework_mutations(case):
    spec = dict(gen_specs())[case["name"]]
    model = X.user_framework(spec, cap_units=False, blank_optional=True)
    vs = []
    counters = {}
    sites = set()
    Fvalid, _e = try_framework(X.to_bytes(model))
    for rule, verdict, site, m in cat_framework(model, spec):
        counters["mut_" + rule] = counters.get("mut_" + rule, 0) + 1
        F, err = try_framework(X.to_bytes(m))
        if verdict == "reject":
            if err is None:
                vs.append(V(f"invalid-framework-accepted:{rule}", f"{case['name']}: mutation '{rule}' at {site} was silently accepted", dict(rule=rule, site=site)))
            elif classify(err) != "dedicated":
                vs.append(V(f"internal-error:{rule}:{type(err).__name__}@{raise_site(err)}", f"{case['name']}: mutation '{rule}' at {site} raised {type(err).__name__} (not the dedicated invalid-input error): {str(err)[:140]}", dict(rule=rule, site=site)))
            else:
                sites.add(raise_site(err) + ":" + str(err)[:25])
        # second route - the same tables put into an already validated framework object (its sheet lists are kept and re-filled in place, the
        # way a user edits `F.sheets[...]`), then validated again: the verdict is that of the file
        if Fvalid is not None:
            try:
                Fraw = at.ProjectFramework(X.spreadsheet(X.to_bytes(m)), validate=False)
            except Exception:  # noqa  (unreadable workbook: only the file route applies)
                Fraw = None
            if Fraw is not None:
                counters["revalidated_objects"] = counters.get("revalidated_objects", 0) + 1
                F2 = sc.dcp(Fvalid)
                for k in list(F2.sheets.keys()):
                    if k not in Fraw.sheets:
                        del F2.sheets[k]
                for k, v in Fraw.sheets.items():
                    if k in F2.sheets:
                        F2.sheets[k][:] = v
                    else:
                        F2.sheets[k] = v
                try:
                    F2._validate()
                    err2 = None
                except Exception as e:  # noqa
                    err2 = e
                if (err is None) != (err2 is None) or (err is not None and classify(err) != classify(err2)):
                    d2 = "accepted" if err2 is None else f"{type(err2).__name__}@{raise_site(err2)}"
                    vs.append(V(f"edited-object-verdict-differs:{rule}:{d2}", f"{case['name']}: mutation '{rule}' at {site}: the file is {'accepted' if err is None else 'rejected (' + type(err).__name__ + ')'} but the same tables put into a validated framework object and validated again are {d2}: {str(err2)[:120]}", dict(rule=rule, site=site)))
        else:
            if err is not None:
                vs.append(V(f"valid-framework-rejected:{rule}:{type(err).__name__}@{raise_site(err)}", f"{case['name']}: mutation '{rule}' at {site} keeps the framework valid but it was rejected: {type(err).__name__}: {str(err)[:140]}", dict(rule=rule, site=site)))
            else:
                try:
                    msg = runnable(F, spec)
                    if msg:
                        vs.append(V(f"valid-framework-not-runnable:{rule}", f"{case['name']}: after '{rule}' at {site}: {msg}", None))
                except Exception as e:  # noqa
                    vs.append(V(f"valid-framework-not-runnable:{rule}:{type(e).__name__}@{raise_site(e)}", f"{case['name']}: after '{rule}' at {site} the framework loads but cannot be run: {type(e).__name__}: {str(e)[:140]}", None))
    counters["distinct_rejection_messages"] = len(sites)
    # one violation per key is enough
    byk = {}
    for v in vs:
        byk.setdefault(v["key"], v)
    return dict(states=0, transitions=0, nontrivial=True, violations=list(byk.values()), counters=counters)


def _try_databook(blob, F):
    # two routes a user takes, each from the file itself: (A) read + validate explicitly, (B) hand the file to a project and run.
    # "Rejected" = a dedicated error on route B (and no other kind of error on route A); "accepted" = both routes complete.
    try:
        D = at.ProjectData.from_spreadsheet(X.spreadsheet(blob), F)
        D.validate(F)
        err_a = None
    except Exception as e:  # noqa
        err_a = e
    try:
        P = at.Project(framework=F, databook=X.spreadsheet(blob), do_run=False)
        P.run_sim(P.parsets[0], store_results=False)
        err_b = None
    except Exception as e:  # noqa
        err_b = e
    if err_a is not None and not isinstance(err_a, DEDICATED):
        return err_a
    if err_a is None and err_b is None:
        # route C: the object that was read and validated on route A is handed to a project (which validates it again) and run
        try:
            P = at.Project(framework=F, databook=D, do_run=False)
            P.run_sim(P.parsets[0], store_results=False)
        except Exception as e:  # noqa
            e2 = RuntimeError(f"accepted from the file and validated, but the validated object then failed in a project: {type(e).__name__}: {e}")
            e2.__traceback__ = e.__traceback__
            return e2
    return err_b


def run_databook_mutations(case):
    spec = base_spec()
    w = World(spec)
    blob = X.values_only(w.D.to_spreadsheet().tofile().getvalue())
    if case.get("blank_pop_types"):
        # the population type column may be left empty when the framework has one population type (all shipped databooks do):
        # the same catalogue is applied to that spelling of the valid databook
        wb = X.load(blob)
        ws = wb["Population Definitions"]
        for r in range(2, ws.max_row + 1):
            ws.cell(row=r, column=3).value = None
        blob = X.dump(wb)
    vs = []
    counters = {}
    err = _try_databook(blob, w.F)
    if err is not None:
        vs.append(V(f"valid-databook-rejected:{type(err).__name__}@{raise_site(err)}", f"the unmodified generated databook is rejected: {str(err)[:160]}", None))
        return dict(states=0, transitions=0, nontrivial=False, violations=vs, counters=counters)
    muts = []
    extra = []
    wb0 = X.load(blob)
    # unit mismatch / blank units / missing data / unknown population : at every TDVE table found on the parameter and compartment sheets
    for ws in wb0.worksheets:
        title = ws.title
        for row in ws.iter_rows():
            for c in row:
                if c.column == 3 and isinstance(c.value, str) and c.value.lower() in ("units",) and ws.cell(row=c.row, column=2).value == "Provenance":
                    # header row of a TDVE table: rows below until blank are populations
                    r = c.row + 1
                    while ws.cell(row=r, column=1).value is not None:
                        coord_u = ws.cell(row=r, column=3).coordinate
                        name = ws.cell(row=c.row, column=1).value
                        pop = ws.cell(row=r, column=1).value
                        muts.append(("unit-mismatch", "reject", f"{title}/{name}/{pop}", [(title, coord_u, "Bananas (per year)")]))
                        u0 = ws.cell(row=r, column=3).value
                        if isinstance(u0, str) and "(per year)" in u0:
                            # same base unit, different timescale
                            muts.append(("unit-timescale-mismatch", "reject", f"{title}/{name}/{pop}", [(title, coord_u, u0.replace("(per year)", "(per day)"))]))
                        if isinstance(u0, str) and u0.strip().lower() == "probability (per year)":
                            muts.append(("unit-mismatch", "reject", f"{title}/{name}/{pop}", [(title, coord_u, "Rate (per year)")]))
                        muts.append(("unknown-population", "reject", f"{title}/{name}/{pop}", [(title, ws.cell(row=r, column=1).coordinate, "Nobody")]))
                        # blank every value in the row (assumption and years)
                        edits = []
                        for cc in range(4, ws.max_column + 1):
                            v = ws.cell(row=r, column=cc).value
                            if isinstance(v, (int, float)):
                                edits.append((title, ws.cell(row=r, column=cc).coordinate, None))
                        if edits:
                            muts.append(("missing-population-data", "reject", f"{title}/{name}/{pop}", edits))
                        r += 1
    # thin out: keep every site for the first two tables of each sheet, then one population per table
    for rule, verdict, site, edits in muts:
        counters["mut_" + rule] = counters.get("mut_" + rule, 0) + 1
        wb = X.load(blob)
        for sheet, coord, val in edits:
            wb[sheet][coord] = val
        err = _try_databook(X.dump(wb), w.F)
        if err is None:
            vs.append(V(f"invalid-databook-accepted:{rule}", f"databook mutation '{rule}' at {site} was silently accepted and run", dict(rule=rule, site=site)))
        elif not isinstance(err, DEDICATED):
            vs.append(V(f"internal-error:{rule}:{type(err).__name__}@{raise_site(err)}", f"databook mutation '{rule}' at {site} raised {type(err).__name__} (not the dedicated invalid-input error): {str(err)[:140]}", dict(rule=rule, site=site)))
    # duplicate a TDVE table (append a copy of the first table at the bottom of its sheet); delete a population row of a table
    for ws in wb0.worksheets:
        hdr = [r for r in range(1, ws.max_row + 1) if ws.cell(row=r, column=2).value == "Provenance" and ws.cell(row=r, column=3).value == "Units"]
        for h in hdr[:3]:
            wb = X.load(blob)
            w2 = wb[ws.title]
            base = w2.max_row + 2
            r = h
            while r <= ws.max_row and ws.cell(row=r, column=1).value is not None:
                for cc in range(1, ws.max_column + 1):
                    w2.cell(row=base + (r - h), column=cc, value=ws.cell(row=r, column=cc).value)
                r += 1
            extra.append(("duplicate-table", f"{ws.title}/{ws.cell(row=h, column=1).value}", X.dump(wb)))
            wb = X.load(blob)
            wb[ws.title].delete_rows(h + 1, 1)
            extra.append(("delete-population-row", f"{ws.title}/{ws.cell(row=h, column=1).value}", X.dump(wb)))
    # a quantity with a framework default may be left out of the databook altogether (its sheet stays): accepted, on every route
    for ws in wb0.worksheets:
        for h in [r for r in range(1, ws.max_row + 1) if ws.cell(row=r, column=1).value == "P dflt" and ws.cell(row=r, column=2).value == "Provenance"]:
            wb = X.load(blob)
            n_ = 1
            while ws.cell(row=h + n_, column=1).value is not None:
                n_ += 1
            wb[ws.title].delete_rows(h, n_ + 1)
            counters["mut_omit-table-with-default"] = counters.get("mut_omit-table-with-default", 0) + 1
            err = _try_databook(X.dump(wb), w.F)
            if err is not None:
                vs.append(V(f"valid-databook-rejected:omit-table-with-default:{type(err).__name__}@{raise_site(err)}", f"a databook without the table of a quantity that has a framework default failed: {type(err).__name__}: {str(err)[:160]}", None))
    wb = X.load(blob)
    wb["Population Definitions"].delete_rows(3, 1)
    extra.append(("delete-population-definition", "Population Definitions/row 3", X.dump(wb)))
    wb = X.load(blob)
    wb["Population Definitions"]["A3"] = wb["Population Definitions"]["A2"].value
    extra.append(("duplicate-population", "Population Definitions/A3", X.dump(wb)))
    for rule, site, mblob in extra:
        counters["mut_" + rule] = counters.get("mut_" + rule, 0) + 1
        err = _try_databook(mblob, w.F)
        if err is None:
            vs.append(V(f"invalid-databook-accepted:{rule}", f"databook mutation '{rule}' at {site} was silently accepted and run", dict(rule=rule, site=site)))
        elif not isinstance(err, DEDICATED):
            vs.append(V(f"internal-error:{rule}:{type(err).__name__}@{raise_site(err)}", f"databook mutation '{rule}' at {site} raised {type(err).__name__} (not the dedicated invalid-input error): {str(err)[:140]}", dict(rule=rule, site=site)))
    # delete a sheet
    for sheet in ["Population Definitions"]:  # (whether the other sheets are required is not a documented rule: not in the catalogue)
        wb = X.load(blob)
        del wb[sheet]
        counters["mut_delete-sheet"] = counters.get("mut_delete-sheet", 0) + 1
        err = _try_databook(X.dump(wb), w.F)
        if err is None:
            vs.append(V("invalid-databook-accepted:delete-sheet", f"databook without the sheet {sheet!r} was silently accepted and run", None))
        elif not isinstance(err, DEDICATED):
            vs.append(V(f"internal-error:delete-sheet:{type(err).__name__}@{raise_site(err)}", f"databook without the sheet {sheet!r} raised {type(err).__name__}: {str(err)[:140]}", None))
    byk = {}
    for v in vs:
        byk.setdefault(v["key"], v)
    return dict(states=0, transitions=0, nontrivial=True, violations=list(byk.values()), counters=counters)


def run_databook_names(case):
    """a model with a transfer AND an interaction: their code names share one namespace, whatever the order of the two sheets in the file"""
    from mc.props import c06

    w = World(c06.model("agg", 0.25, "three", 0.5, 1.5, "none", False, None))
    blob = X.values_only(w.D.to_spreadsheet().tofile().getvalue())
    vs = []
    counters = {}
    for order in ("as_written", "transfers_first"):
        for dup in (False, True):
            wb = X.load(blob)
            if order == "transfers_first":
                wb.move_sheet("Transfers", offset=wb.sheetnames.index("Interactions") - wb.sheetnames.index("Transfers"))
            if dup:
                wb["Transfers"]["A2"] = wb["Interactions"]["A2"].value
            err = _try_databook(X.dump(wb), w.F)
            rule = ("transfer-named-like-an-interaction" if dup else "valid") + ":" + order
            counters["names_" + rule] = 1
            if dup and err is None:
                vs.append(V(f"invalid-databook-accepted:{rule}", f"a databook whose transfer carries the code name of an interaction (sheet order {order}) was silently accepted and run", None))
            elif dup and not isinstance(err, DEDICATED):
                vs.append(V(f"internal-error:{rule}:{type(err).__name__}@{raise_site(err)}", f"duplicate transfer / interaction name (sheet order {order}) raised {type(err).__name__}: {str(err)[:140]}", None))
            elif not dup and err is not None:
                vs.append(V(f"valid-databook-rejected:{rule}:{type(err).__name__}@{raise_site(err)}", f"valid databook (sheet order {order}) failed: {type(err).__name__}: {str(err)[:160]}", None))
    return dict(states=0, transitions=0, nontrivial=True, violations=vs, counters=counters)


def _try_progbook(blob, w):
    try:
        ps = at.ProgramSet.from_spreadsheet(X.spreadsheet(blob), framework=w.F, data=w.D)
        w.P.run_sim(w.parset, ps, w.instr, store_results=False)
        return None
    except Exception as e:  # noqa
        return e


def run_progbook_mutations(case):
    spec = base_spec()
    w = World(spec)
    blob = X.values_only(w.progset.to_spreadsheet().tofile().getvalue())
    vs = []
    counters = {}
    err = _try_progbook(blob, w)
    if err is not None:
        vs.append(V(f"valid-progbook-rejected:{type(err).__name__}@{raise_site(err)}", f"the unmodified generated program book is rejected: {str(err)[:160]}", None))
        return dict(states=0, transitions=0, nontrivial=False, violations=vs, counters=counters)
    wb0 = X.load(blob)
    muts = []
    pops = set(spec["pops"])
    for ws in wb0.worksheets:
        for row in ws.iter_rows():
            for c in row:
                v = c.value
                if not isinstance(v, str):
                    continue
                if v in ("Pop pa1", "Pop pb1", "pa1", "pb1"):
                    muts.append(("unknown-population", "reject", f"{ws.title}!{c.coordinate}", [(ws.title, c.coordinate, "Pop nobody")]))
                if v in ("P vr", "vr"):
                    muts.append(("unknown-parameter", "reject", f"{ws.title}!{c.coordinate}", [(ws.title, c.coordinate, "P nosuchpar")]))
                if v in ("Prog P1", "Prog P2", "P1", "P2") and ws.title.lower().startswith("program effects"):
                    muts.append(("unknown-program", "reject", f"{ws.title}!{c.coordinate}", [(ws.title, c.coordinate, "Prog nosuch")]))
                if v.lower().startswith("unit cost"):
                    edits = [(ws.title, ws.cell(row=c.row, column=cc).coordinate, None) for cc in range(2, ws.max_column + 1) if isinstance(ws.cell(row=c.row, column=cc).value, (int, float))]
                    if edits:
                        muts.append(("missing-unit-cost", "reject", f"{ws.title}!{c.coordinate}", edits))
    for rule, verdict, site, edits in muts:
        counters["mut_" + rule] = counters.get("mut_" + rule, 0) + 1
        wb = X.load(blob)
        for sheet, coord, val in edits:
            wb[sheet][coord] = val
        err = _try_progbook(X.dump(wb), w)
        if err is None:
            vs.append(V(f"invalid-progbook-accepted:{rule}", f"program book mutation '{rule}' at {site} was silently accepted and run", dict(rule=rule, site=site)))
        elif not isinstance(err, DEDICATED):
            vs.append(V(f"internal-error:{rule}:{type(err).__name__}@{raise_site(err)}", f"program book mutation '{rule}' at {site} raised {type(err).__name__} (not the dedicated invalid-input error): {str(err)[:140]}", dict(rule=rule, site=site)))
    byk = {}
    for v in vs:
        byk.setdefault(v["key"], v)
    return dict(states=0, transitions=0, nontrivial=True, violations=list(byk.values()), counters=counters)


def run_case(case):
    return dict(valid_generated=run_valid_generated, valid_library=run_valid_library, framework_mutations=run_framework_mutations, databook_mutations=run_databook_mutations, progbook_mutations=run_progbook_mutations, databook_names=run_databook_names)[case["kind"]](case)
