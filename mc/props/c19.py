"""C19 - parameter functions can only do arithmetic with whitelisted functions"""

import ast
import itertools
import math
import os
import shutil
import tempfile
import warnings

import numpy as np

from mc.oracles import V

LEVEL = "exploration"
RULE = (
    "(a) every forbidden construct named by the property (attribute access, method call, call of an unlisted name, double underscore, lambda, list/set/dict/generator comprehension; instances derived "
    "from the running interpreter's ast module so that every ast.expr subclass is classified) embedded in EVERY allowed context (each operand slot of each operator/comparison, each argument slot of each "
    "whitelisted function, numerator and denominator of a division) nested to depth 2 (quick) / 3 (thorough): parse_function must raise and leave the scratch directory empty; "
    "(b) arithmetic expressions over the whitelisted operators and functions - complete at depth <= 1, complete unary forms and a fixed pool of binary combinations at depth 2 / 3 (thorough: every depth-1 expression as an operand at depth 2), see exprs() - are accepted, evaluate like ordinary real arithmetic (0/x = 0/0 = 0) on scalars and arrays, and report exactly their free names. "
    "(c) plot specifications (evaluate_plot_string): lists / dicts of strings are evaluated as literals, every forbidden construct and every non-string element inside every list / dict wrapper is rejected. "
    "distinct_nontrivial counts distinct expression strings with nesting depth >= 1."
)
ASSUMPTIONS = [
    "constructs that the statement neither requires nor forbids (a if b else c, and/or/not, tuples, lists, subscripts with constant index, string constants, starred arguments, keyword arguments) are classified 'unspecified' and never flagged either way",
    "reference arithmetic = numpy float64 with the documented rule that a zero numerator gives 0",
    "every subclass of ast.expr of the running interpreter is classified as allowed / forbidden / unspecified; an unclassified class fails the run as a harness error",
]
CASE_TIMEOUT = 600

FUNCS1 = ["exp", "floor", "cos", "sin", "sqrt", "ln"]
FUNCS2 = ["max", "min", "sdiv"]
BINOPS = ["+", "-", "*", "/", "**"]
CMPS = ["<", ">"]

# classification of ast.expr subclasses
ALLOWED_NODES = {"BinOp", "UnaryOp", "Compare", "Call", "Name", "Constant"}
FORBIDDEN_NODES = {"Attribute", "Lambda", "ListComp", "SetComp", "DictComp", "GeneratorExp"}
UNSPECIFIED_NODES = {"BoolOp", "IfExp", "Dict", "Set", "List", "Tuple", "Subscript", "Starred", "Slice", "JoinedStr", "FormattedValue", "NamedExpr", "Await", "Yield", "YieldFrom", "TemplateStr", "Interpolation", "Num", "Str", "Bytes", "NameConstant", "Ellipsis", "Index", "ExtSlice"}

FORBIDDEN = [
    ("Attribute", "x.real"),
    ("Attribute", "x.T"),
    ("Attribute", "(x+y).imag"),
    ("method-call", "x.tofile('verif_leak')"),
    ("method-call", "x.sum()"),
    ("method-call", "x.dump('verif_leak2')"),
    ("method-call", "(x*2).conjugate()"),
    ("unlisted-call", "abs(x)"),
    ("unlisted-call", "open('verif_leak3','w')"),
    ("unlisted-call", "eval('1')"),
    ("unlisted-call", "print(x)"),
    ("unlisted-call", "getattr(x,'real')"),
    ("unlisted-call", "type(x)"),
    ("unlisted-call", "y(x)"),
    # the unlisted function sits in a compound callee expression: still "a call to an unlisted function"
    ("unlisted-call-compound-callee", "(abs if x else exp)(x)"),
    ("unlisted-call-compound-callee", "(exp if x else abs)(x)"),
    ("unlisted-call-compound-callee", "(globals if 1 else exp)()"),
    ("unlisted-call-compound-callee", "(abs or exp)(x)"),
    ("unlisted-call-compound-callee", "(x and abs)(y)"),
    ("unlisted-call-compound-callee", "[abs][0](x)"),
    ("unlisted-call-compound-callee", "(abs,)[0](x)"),
    ("unlisted-call-compound-callee", "{0: abs}[0](x)"),
    ("unlisted-call-compound-callee", "(f := abs)(x)"),
    ("unlisted-call-compound-callee", "(-abs)(x)"),
    ("unlisted-call-compound-callee", "(exp + abs)(x)"),
    ("unlisted-call-compound-callee", "(abs < exp)(x)"),
    ("unlisted-call-compound-callee", "max(abs, exp)(x)"),
    ("double-underscore", "x__y"),
    ("double-underscore", "__import__('os')"),
    ("double-underscore", "x.__class__"),
    ("Lambda", "(lambda: x)()"),
    ("Lambda", "(lambda z: z)(x)"),
    ("ListComp", "[z for z in x]"),
    ("SetComp", "{z for z in x}"),
    ("DictComp", "{z: z for z in x}"),
    ("GeneratorExp", "max(z for z in x)"),
    ("GeneratorExp", "(z for z in x)"),
]


def contexts():
    """allowed one-hole contexts '{}'"""
    out = []
    for op in BINOPS:
        out += [f"({{}}){op}y", f"x{op}({{}})"]
    out += ["-({})", "+({})"]
    for c in CMPS:
        out += [f"({{}}){c}y", f"x{c}({{}})"]
    for f in FUNCS1:
        out.append(f"{f}({{}})")
    for f in FUNCS2:
        out += [f"{f}({{}},y)", f"{f}(x,{{}})"]
    out.append("max(x,y,{})")
    return out


def embed(inner, ctxs):
    s = inner
    for c in ctxs:
        s = c.replace("{}", s)
    return s


def cases(tier):
    depth = 2 if tier == "quick" else 3
    yield dict(kind="classify")
    ctx = contexts()
    for i, (cls, src) in enumerate(FORBIDDEN):
        for d in range(0, depth + 1):
            # one case per (instance, depth, first context) keeps cases small enough to shard
            if d == 0:
                yield dict(kind="reject", cls=cls, src=src, depth=0, first=None)
            else:
                for k in range(len(ctx)):
                    yield dict(kind="reject", cls=cls, src=src, depth=d, first=k)
    for d in range(0, depth + 1):
        yield dict(kind="semantics", depth=d, tier=tier)
    if tier == "thorough":
        for sh in range(32):
            yield dict(kind="semantics", depth=2, tier=tier, full=True, shard=[sh, 32])
    yield dict(kind="selectors")
    yield dict(kind="plot_strings")


def parse(s):
    from atomica.function_parser import parse_function

    return parse_function(s)


def run_reject(case):
    ctx = contexts()
    vs = []
    n = 0
    tmp = tempfile.mkdtemp(prefix="c19_", dir="/dev/shm" if os.path.isdir("/dev/shm") else None)
    cwd = os.getcwd()
    os.chdir(tmp)
    try:
        d = case["depth"]
        combos = [()] if d == 0 else ((ctx[case["first"]],) + rest for rest in itertools.product(ctx, repeat=d - 1))
        for combo in combos:
            s = embed(case["src"], combo)
            if len(s) >= 1800:
                continue
            n += 1
            # every string is parsed twice: a rejected string must stay rejected when it is submitted again
            for attempt in (1, 2):
                try:
                    parse(s)
                except Exception:
                    continue
                finally:
                    left = os.listdir(tmp)
                    if left:
                        vs.append(V(f"side-effect:{case['cls']}", f"parsing {s!r} created {left}", None))
                if len(vs) < 3:
                    vs.append(V(f"accepted-forbidden:{case['cls']}", f"parse_function accepted {s!r} on attempt {attempt} ({case['cls']} must be rejected when parsed)", dict(expr=s)))
                break
    finally:
        os.chdir(cwd)
        shutil.rmtree(tmp, ignore_errors=True)
    return dict(states=0, transitions=0, nontrivial=d >= 1, violations=vs[:3], counters=dict(reject_strings=n), digest=f"rej-{case['src']}-{d}-{case['first']}")


# ------------------------------------------------------------ semantics

LEAVES = ["x", "y", "0", "1", "0.5", "2", "t", "a:b"]


def is_truth(e):
    """top-level operator of the expression string is a comparison"""
    try:
        return isinstance(ast.parse(e.replace(":", "___"), mode="eval").body, ast.Compare)
    except SyntaxError:
        return False


def exprs(depth, full=False):
    """expressions of exactly the given nesting depth.  Depth 1 is complete (every operator / function over every pair of leaves).  From depth 2 on,
    unary forms are complete and binary forms combine a fixed stride-selected subset of ~60 expressions of the previous level (all of them when
    full=True) with a pool of 4 leaves + 6 depth-1 expressions, in both operand orders."""
    levels = [list(LEAVES)]
    for d in range(1, depth + 1):
        prev_all = [e for lv in levels for e in lv]
        last = levels[-1]
        cur = []
        # unary
        for e in last:
            if is_truth(e):
                continue  # the numeric type of a truth value is unspecified: numpy refuses -(a<b) and computes exp(a<b) in half precision; truth values are only generated as operands of + - * / and comparisons
            cur.append(f"-({e})")
            for f in FUNCS1:
                cur.append(f"{f}({e})")
        # binary: at least one side from the last level; the other from a small pool to bound the product
        pool = LEAVES[:4] + (levels[1][:6] if len(levels) > 1 else [])
        for e in last if (d == 1 or (full and d == depth)) else last[:: max(1, len(last) // 60)]:
            for o in pool if d > 1 else LEAVES:
                truth = is_truth(e) or is_truth(o)
                for op in BINOPS + CMPS:
                    if truth and op == "**":
                        continue
                    cur.append(f"({e}){op}({o})")
                    cur.append(f"({o}){op}({e})")
                if not truth:
                    for f in FUNCS2:
                        cur.append(f"{f}({e},{o})")
        levels.append(cur)
    return levels[depth]


def ref_eval(node, env, eps=0.0):
    """reference evaluation; with eps != 0 every intermediate floating point result is displaced by the relative amount eps (about one ulp), which
    shows whether the expression amplifies rounding errors of its intermediates (e.g. ln(0.5**x) for tiny x) - such positions are not compared"""
    if eps:
        # eps = [magnitude, generator state]: the sign of each displacement comes from a fixed linear congruential sequence, so that the
        # displacements of the two operands of a subtraction are not all in the same direction
        v = _ref_eval(node, env, eps)
        if isinstance(node, (ast.BinOp, ast.Call)) and np.asarray(v).dtype.kind == "f":
            eps[1] = (eps[1] * 1103515245 + 12345) % (1 << 31)
            return v * (1.0 + (eps[0] if (eps[1] >> 16) & 1 else -eps[0]))
        return v
    return _ref_eval(node, env, eps)


def _ref_eval(node, env, eps):
    if isinstance(node, ast.Expression):
        return ref_eval(node.body, env, eps)
    if isinstance(node, ast.Constant):
        return float(node.value)
    if isinstance(node, ast.Name):
        return env[node.id]
    if isinstance(node, ast.UnaryOp):
        v = ref_eval(node.operand, env, eps)
        return -v if isinstance(node.op, ast.USub) else +v
    if isinstance(node, ast.BinOp):
        a, b = ref_eval(node.left, env, eps), ref_eval(node.right, env, eps)
        if isinstance(node.op, ast.Add):
            return a + b
        if isinstance(node.op, ast.Sub):
            return a - b
        if isinstance(node.op, ast.Mult):
            return a * b
        if isinstance(node.op, ast.Pow):
            return np.power(a, b)
        if isinstance(node.op, ast.Div):
            return ref_div(a, b)
    if isinstance(node, ast.Compare):
        a, b = ref_eval(node.left, env, eps), ref_eval(node.comparators[0], env, eps)
        return (a < b) if isinstance(node.ops[0], ast.Lt) else (a > b)
    if isinstance(node, ast.Call):
        args = [ref_eval(a, env, eps) for a in node.args]
        f = node.func.id
        if f == "max":
            return np.maximum(args[0], args[1])
        if f == "min":
            return np.minimum(args[0], args[1])
        if f == "sdiv":
            return ref_div(args[0], args[1])
        return dict(exp=np.exp, floor=np.floor, cos=np.cos, sin=np.sin, sqrt=np.sqrt, ln=np.log)[f](args[0])
    raise ValueError(type(node).__name__)


def ref_div(a, b):
    a = np.asarray(a, dtype=float)
    b = np.asarray(b, dtype=float)
    a, b = np.broadcast_arrays(a, b)
    out = np.zeros(a.shape, dtype=float)
    nz = a != 0
    out[nz] = a[nz] / b[nz]
    return out if out.shape else float(out)


ENVS = [
    # scalars are numpy floats, which is what the simulator passes to parameter functions
    dict(x=np.float64(0.0), y=np.float64(1.0), t=np.float64(2000.0), a___b=np.float64(0.5)),
    dict(x=np.float64(-2.0), y=np.float64(0.0), t=np.float64(2000.5), a___b=np.float64(0.0)),
    dict(x=np.float64(0.5), y=np.float64(-2.0), t=np.float64(0.0), a___b=np.float64(3.0)),
    dict(x=np.array([0.0, 1.0, -2.0, 0.5]), y=np.array([1.0, 0.0, 0.0, 2.0]), t=np.array([2000.0, 2000.25, 2000.5, 2000.75]), a___b=np.array([0.0, 0.0, 1.0, 4.0])),
    dict(x=np.array([0.0, 3.0]), y=np.float64(2.0), t=np.array([1.0, 2.0]), a___b=np.float64(0.0)),
    # very small and very large magnitudes: "0 when the numerator is 0" means exactly 0, a tiny numerator is an ordinary number
    dict(x=np.float64(2e-9), y=np.float64(8e-9), t=np.float64(1e-5), a___b=np.float64(-3e-10)),
    dict(x=np.array([1e-9, 0.0, -4e-10, 1e-300]), y=np.array([4e-9, 2e-12, 0.0, 1e-290]), t=np.array([1e-5, 2e-4, 1e8, 1e-8]), a___b=np.array([0.0, 1e-15, 5e-9, 1e12])),
]


def run_semantics(case):
    vs = []
    n = 0
    warnings.filterwarnings("ignore")
    np.seterr(all="ignore")
    sh = case.get("shard")
    prev = None
    for k, s in enumerate(exprs(case["depth"], full=bool(case.get("full")))):
        if sh and k % sh[1] != sh[0]:
            continue
        n += 1
        try:
            fcn, deps = parse(s)
        except Exception as e:
            vs.append(V("rejected-allowed", f"parse_function rejected the plain arithmetic expression {s!r}: {type(e).__name__}: {e}", dict(expr=s)))
            if len(vs) > 3:
                break
            continue
        # the dependency list handed out for the PREVIOUS expression must still say what it said (the caller keeps it)
        if prev is not None and list(prev[1]) != prev[2]:
            vs.append(V("dependencies-changed-by-later-parse", f"the dependency list reported for {prev[0]!r} was {prev[2]} and reads {list(prev[1])} after {s!r} was parsed", dict(expr=s)))
        prev = (s, deps, list(deps))
        tree = ast.parse(s.replace(":", "___"), mode="eval")
        free = {nd.id for nd in ast.walk(tree) if isinstance(nd, ast.Name)} - set(FUNCS1 + FUNCS2)
        if set(deps) != free:
            vs.append(V("dependencies", f"{s!r}: reported dependencies {sorted(set(deps))} but the free names are {sorted(free)}", dict(expr=s)))
        for env in ENVS:
            e2 = {k: env[k] for k in free}
            try:
                exp = ref_eval(tree, env)
            except Exception:
                continue
            e2 = {k: (v.copy() if isinstance(v, np.ndarray) else v) for k, v in e2.items()}
            try:
                got = fcn(**e2)
            except Exception as e:
                got = None
            changed = [k for k in e2 if not np.array_equal(np.asarray(e2[k]), np.asarray(env[k]), equal_nan=True)]
            if changed:
                vs.append(V("evaluation-modified-its-arguments", f"{s!r}: evaluating the function changed the caller's array(s) {changed}: {({k: np.asarray(env[k]).tolist() for k in changed})} -> {({k: np.asarray(e2[k]).tolist() for k in changed})}", dict(expr=s)))
                break
            try:
                if got is None:
                    fcn(**e2)
            except Exception as e:
                if not np.all(np.isfinite(np.asarray(exp, dtype=float))):
                    continue  # undefined in real arithmetic (e.g. 0**-1 on Python constants): an error is as good as inf
                vs.append(V("evaluation-error", f"{s!r} with {e2}: {type(e).__name__}: {e}", dict(expr=s)))
                break
            g = np.asarray(got)
            if np.iscomplexobj(g):
                # Python scalars give a complex number where real arithmetic is undefined (negative base, fractional power); numpy gives nan
                g = np.where(g.imag != 0, np.nan, g.real)
            g = np.asarray(g, dtype=float)
            x = np.asarray(exp, dtype=float)
            try:
                g, x = np.broadcast_arrays(g, x)
            except ValueError:
                vs.append(V("shape", f"{s!r}: result shape {g.shape} vs {x.shape}", None))
                break
            # positions where the expression is ill-conditioned (a 2-ulp change of the inputs moves the reference beyond the tolerance, e.g. cos(exp(sqrt(t)))) are not compared
            try:
                x2 = np.broadcast_to(np.asarray(ref_eval(tree, {k: v * (1 + 4e-16) for k, v in env.items()}), dtype=float), x.shape)
                illc = ~(np.isclose(x, x2, rtol=1e-13, atol=0, equal_nan=True) | (x == x2))
                for seed_ in (1, 2, 3, 4, 5, 6):
                    x3 = np.broadcast_to(np.asarray(ref_eval(tree, env, [2.5e-16, seed_]), dtype=float), x.shape)
                    illc = illc | ~(np.isclose(x, x3, rtol=1e-13 * (1 + 4 * s.count("(")), atol=0, equal_nan=True) | (x == x3))
            except Exception:
                illc = np.zeros(x.shape, dtype=bool)
            # nan in the reference = undefined in real arithmetic: not compared.  An infinite reference (division of a non-zero number by zero, overflow) is
            # matched by an infinity of either sign or nan: the sign depends on whether a literal 0 is the integer 0 or the float -0.0 after a unary minus
            ok = np.isclose(g, x, rtol=1e-12, atol=0, equal_nan=True) | (g == x) | np.isnan(x) | illc | (np.isinf(x) & ~np.isfinite(g))
            if not ok.all():
                vs.append(V("wrong-value", f"{s!r} with {({k: (v.tolist() if hasattr(v, 'tolist') else v) for k, v in e2.items()})}: got {g.tolist()} expected {x.tolist()}", dict(expr=s)))
                break
        if len(vs) > 3:
            break
    return dict(states=0, transitions=0, nontrivial=case["depth"] >= 1, violations=vs[:4], counters=dict(semantic_exprs=n, semantic_evals=n * len(ENVS)), digest=f"sem-{case['depth']}-{case.get('shard')}-{n}")


def run_classify(case):
    """Every expression node class of this interpreter must be classified"""
    from mc.runner import HarnessError

    names = {c.__name__ for c in ast.expr.__subclasses__()}
    unk = names - ALLOWED_NODES - FORBIDDEN_NODES - UNSPECIFIED_NODES
    if unk:
        raise HarnessError(f"unclassified ast.expr subclasses in this interpreter: {sorted(unk)}")
    covered = {c for c, _ in FORBIDDEN}
    missing = FORBIDDEN_NODES - covered
    if missing:
        raise HarnessError(f"forbidden node classes without an instance: {missing}")
    return dict(states=0, transitions=0, nontrivial=False, violations=[], counters=dict(expr_node_classes=len(names)))


def run_selectors(case):
    vs = []
    fcn, deps = parse("a:b + c::d*2")
    if set(deps) != {"a___b", "c______d"}:
        vs.append(V("selector-names", f"':' selectors must map to '___' names, got {deps}", None))
    elif fcn(a___b=1.0, c______d=2.0) != 5.0:
        vs.append(V("selector-value", "a:b + c::d*2 with 1, 2 is not 5", None))
    return dict(states=0, transitions=0, nontrivial=True, violations=vs, digest="selectors")


def run_plot_strings(case):
    """plot specifications in the framework are evaluated as literals of lists / dicts of strings only"""
    from atomica.utils import evaluate_plot_string

    vs = []
    n = 0
    tmp = tempfile.mkdtemp(prefix="c19p_", dir="/dev/shm" if os.path.isdir("/dev/shm") else None)
    cwd = os.getcwd()
    os.chdir(tmp)
    try:
        good = {"{'New cases':['a:flow','b:flow']}": {"New cases": ["a:flow", "b:flow"]}, "['a','b']": ["a", "b"], "[{'x':['a']},'b']": [{"x": ["a"]}, "b"], "alive": "alive", "a:b": "a:b"}
        for src, exp in good.items():
            n += 1
            try:
                if evaluate_plot_string(src) != exp:
                    vs.append(V("plot-string-value", f"evaluate_plot_string({src!r}) is not the literal {exp!r}", None))
            except Exception as e:
                vs.append(V("plot-string-rejected", f"valid plot specification {src!r} rejected: {type(e).__name__}: {e}", None))
        wrappers = ["[{}]", "{{'k':[{}]}}", "[['a'],{}]", "{{'k':{}}}", "[{{'k':[{}]}}]"]
        inner = [src for _, src in FORBIDDEN] + ["open('verif_leak4','w')", "'a'.upper()", "1+1", "'a'*3", "x", "-1", "('a','b')", "f'{1}'", "[y for y in 'ab']"]
        for w_ in wrappers:
            for i_ in inner:
                s_ = w_.format(i_)
                n += 1
                try:
                    evaluate_plot_string(s_)
                except Exception:
                    continue
                finally:
                    left = os.listdir(tmp)
                    if left:
                        vs.append(V("plot-string-side-effect", f"evaluating the plot specification {s_!r} created {left}", None))
                vs.append(V("plot-string-accepted-non-literal", f"evaluate_plot_string accepted {s_!r}, which is not a list / dict of strings", dict(expr=s_)))
                if len(vs) > 3:
                    break
            if len(vs) > 3:
                break
        # the same strings reached through the plotting entry points of a result whose framework got its plot rows AFTER it was validated
        import matplotlib

        matplotlib.use("agg")
        import matplotlib.pyplot as plt
        import pandas as pd
        from mc import simspace
        from mc.build import World

        w = World(simspace.base_spec(["a", "b"], 0.25))
        res = w.run(progs=False)
        for i_ in inner[:12] + ["open('verif_leak5','w')"]:
            for w_ in wrappers[:2]:
                s_ = w_.format(i_)
                n += 1
                res.framework.sheets["plots"] = [pd.DataFrame([{"name": "p1", "type": "line", "quantities": s_, "plot group": None}])]
                try:
                    res.plot()
                    accepted = True
                except Exception:
                    accepted = False
                plt.close("all")
                left = os.listdir(tmp)
                if left:
                    vs.append(V("plot-string-side-effect", f"Result.plot() with the framework plot specification {s_!r} created {left}", None))
                    break
                if accepted:
                    vs.append(V("plot-string-accepted-non-literal", f"Result.plot() accepted the framework plot specification {s_!r}, which is not a list / dict of strings", dict(expr=s_)))
                    break
            if len(vs) > 3:
                break
    finally:
        os.chdir(cwd)
        shutil.rmtree(tmp, ignore_errors=True)
    return dict(states=0, transitions=0, nontrivial=True, violations=vs[:3], counters=dict(plot_strings=n), digest="plot_strings")


def run_case(case):
    return dict(classify=run_classify, reject=run_reject, semantics=run_semantics, selectors=run_selectors, plot_strings=run_plot_strings)[case["kind"]](case)
