"""C16 - round trips preserve content and behaviour; objects behave as their visible data"""

import io
import itertools
import os
import shutil
import tempfile
import numpy as np
import pandas as pd
import sciris as sc
import atomica as at

from mc import simspace
from mc.oracles import V
from mc.build import World
from mc.snapshot import snap_hash
from mc.asdctl import scripted
from mc.props import c06
from mc.props.c09 import arrays

LEVEL = "model_checking"
RULE = (
    "(a) round trips of generated and library frameworks / databooks / program books / calibrations / projects / results: write -> read -> content compared irrespective of table order and metadata (16 significant digits), both simulate equal (1e-9), "
    "second round trip content-identical, binary save/load bit-identical. (b) explicit-state BFS over edit histories up to length 2 (quick) / 3 (thorough) over {copy, add population, remove population, add program, remove program, "
    "add parameter, remove parameter, zero-uncertainty sampling, reconciliation under a scripted optimiser path with bounds {0, 0.05}, load calibration {matching, with unknown entries, with missing entries}} on a (databook, parameter set, program set) triple; "
    "invariant in EVERY state: the objects simulate the same (1e-9) as the objects rebuilt from their own exported spreadsheets, export -> import -> export is a fixed point, loading a calibration skips unknown entries and keeps values for missing ones. "
    "States are deduplicated on the full structural hash (private caches included)."
)
ASSUMPTIONS = [
    "binary files written by the current version only (migration of historical files is exercised by the repository's fixtures, not enumerated)",
    "library files: those that load on the current tree",
    "behaviour comparison 1e-9, content comparison rel 1e-15 (a spreadsheet stores 16-17 significant digits)",
]
CASE_TIMEOUT = 900
LIB = ["tb", "hiv", "udt", "usdt", "cervicalcancer", "malaria", "hypertension", "diabetes", "service", "dt", "tb_simple"]


# ------------------------------------------------------------------ content extraction


def ts_content(ts):
    t, v = (list(ts.t), list(ts.vals))
    pts = sorted((float(a), float(b)) for a, b in zip(t, v))
    return (None if ts.units is None else str(ts.units).strip().lower(), None if ts.assumption is None else float(ts.assumption), None if ts.sigma is None else float(ts.sigma), pts)


def data_content(D):
    out = dict(pops={k: (v["label"], v["type"]) for k, v in D.pops.items()}, tdve={}, conn={})
    for name, td in D.tdve.items():
        out["tdve"][name] = {pop: ts_content(ts) for pop, ts in td.ts.items()}
    for tdc in list(D.transfers) + list(D.interpops):
        out["conn"][tdc.code_name] = {tuple(k): ts_content(ts) for k, ts in tdc.ts.items()}
    return out


def progset_content(ps):
    out = dict(pops=sorted(ps.pops), comps=sorted(ps.comps), pars=sorted(ps.pars), progs={}, covouts={})
    for n, p in ps.programs.items():
        out["progs"][n] = (p.label, sorted(p.target_pops), sorted(p.target_comps), ts_content(p.spend_data), ts_content(p.unit_cost), ts_content(p.capacity_constraint), ts_content(p.saturation), ts_content(p.coverage))
    for k, c in ps.covouts.items():
        imp = {}
        if c.imp_interaction and c.imp_interaction.lower() not in ("best", "synergistic"):
            for item in c.imp_interaction.split(","):
                a, b = item.split("=")
                imp[tuple(sorted(x.strip() for x in a.split("+")))] = float(b)
        out["covouts"][tuple(k)] = (float(c.baseline), c.cov_interaction, imp, None if c.sigma is None else float(c.sigma), {a: float(b) for a, b in c.progs.items()})
    return out


def close(a, b, path=""):
    """first difference between two content structures (numbers to rel 1e-15), or None"""
    if isinstance(a, dict) and isinstance(b, dict):
        if set(a) != set(b):
            return f"{path}: keys differ: only in first {sorted(map(str, set(a) - set(b)))[:4]}, only in second {sorted(map(str, set(b) - set(a)))[:4]}"
        for k in a:
            d = close(a[k], b[k], f"{path}/{k}")
            if d:
                return d
        return None
    if isinstance(a, (list, tuple)) and isinstance(b, (list, tuple)):
        if len(a) != len(b):
            return f"{path}: length {len(a)} != {len(b)}"
        for i, (x, y) in enumerate(zip(a, b)):
            d = close(x, y, f"{path}[{i}]")
            if d:
                return d
        return None
    if isinstance(a, float) and isinstance(b, float):
        if a == b or (a != a and b != b) or abs(a - b) <= 1e-15 * max(abs(a), abs(b)):
            return None
        return f"{path}: {a!r} != {b!r}"
    if a != b:
        return f"{path}: {a!r} != {b!r}"
    return None


def sim_close(r1, r2, tol=1e-9):
    a, b = arrays(r1), arrays(r2)
    keys_a = {k for k in a if not (k[0] == "link" and k[-1] == "-")}
    for k in keys_a:
        if k not in b:
            return f"{k} missing after the round trip"
        if a[k].shape != b[k].shape or not np.allclose(a[k], b[k], rtol=tol, atol=1e-12, equal_nan=True):
            i = int(np.argmax(~np.isclose(a[k], b[k], rtol=tol, atol=1e-12, equal_nan=True).reshape(a[k].shape[0], -1).all(axis=1))) if a[k].shape == b[k].shape else -1
            return f"{k} differs at index {i}: {np.asarray(a[k][i]).tolist() if i >= 0 else a[k].shape} vs {np.asarray(b[k][i]).tolist() if i >= 0 else b[k].shape}"
    return None


# ------------------------------------------------------------------ (a) round trips


def gen_specs():
    yield "combined", simspace.combined_spec(0.25, v=0.3, dur=1.0, tj=0.2, pa=0.3, d=0.01, br=5.0, prog=True)
    s = simspace.combined_spec(0.25, v={"t": [2000.0, 2001.0, 2002.0], "v": [0.1, 0.3, 0.2]}, dur=5 / 12, prog=True)
    s["progs"]["covouts"][0]["imp"] = "P1+P2=0.95"
    s["progs"]["progs"][0]["spend"] = {"t": [2000.0, 2001.0], "v": [268.97162399999996, 1000.0 / 3]}
    s["progs"]["progs"][1]["sat"] = 0.8
    s["progs"]["progs"][1]["cap"] = 77.7
    for p in s["pars"]:
        if p["name"] == "dr":
            p["sigma"] = 0.1
    yield "combined_sparse", s
    # data entered at closely spaced years (quarterly ... daily columns): each column must come back in its own place
    for lab, sp in (("quarter", 0.25), ("month", 1 / 12), ("week", 1 / 52), ("day", 1 / 365)):
        yrs = [2000.0 + k * sp for k in range(4)] + [2001.0, 2002.0]
        s = simspace.combined_spec(0.25, v={"t": yrs, "v": [0.1, 0.3, 0.2, 0.25, 0.15, 0.35]}, dur=1.0, prog=True)
        s["years"] = yrs
        s["progs"]["years"] = yrs[:4] + [2001.0]
        s["progs"]["progs"][0]["spend"] = {"t": yrs[:4] + [2001.0], "v": [100.0, 200.0, 300.0, 400.0, 500.0]}
        yield "spacing_" + lab, s
    s = simspace.combined_spec(0.25, v=0.3, dur=1.0, tj=0.2, pa=0.3, d=0.01, br=5.0, prog=True)
    s["progs"]["progs"][1]["comps"] = list(s["progs"]["progs"][1]["comps"]) + ["dead"]  # a program that also reaches a sink compartment
    yield "targets_sink", s
    s = simspace.combined_spec(0.25, v=0.3, dur=1.0, tj=0.2, pa=0.3, d=0.01, br=5.0, prog=True)
    s["pars"] += [dict(name="vr2", fmt="rate", val=0.4), dict(name="nv", fmt="number", val=6.0)]
    s["links"] += [["sus", "vac", "vr2"], ["sus", "vac", "nv"], ["ca", "dead", "vr2"]]  # three parameters drive sus -> vac (one cell of the transition matrix), two drive ca -> dead
    yield "several_pars_per_link", s
    yield "agg", c06.model("agg", 0.25, "three", 0.5, 1.5, "both", True, None)
    yield "state", c06.model("state", 0.5, "one", 1.0, 1.0, "min", True, None)
    for t in simspace.timed("quick"):
        if t["timed"]["struct"] in ("group_resjunction", "two_pops") and t["timed"]["D"] == "3dt" and t["timed"]["extra"] == 0.3 and t["timed"]["ainit"] == 60.0 and t["sim"][2] == 0.25:
            yield "timed_" + t["timed"]["struct"], t


def cases(tier):
    for name, _ in gen_specs():
        yield dict(kind="roundtrip_generated", name=name)
    for table in (0, 1):
        for year in (2002, 2000.5, 1999):
            yield dict(kind="roundtrip_own_axes", table=table, year=year)
    for lib in LIB:
        yield dict(kind="roundtrip_library", name=lib)
    ops = OPS
    depth = 2 if tier == "quick" else 3
    for d in range(1, depth + 1):
        for h in itertools.product(range(len(ops)), repeat=d):
            if d == 3 and not ({"remove_pop", "remove_program", "remove_program_first", "reconcile05", "reconcile_b", "sample0", "remove_par"} & {ops[i] for i in h[:2]}):
                continue
            yield dict(kind="history", hist=[ops[i] for i in h])


def rt_data(D, F):
    return at.ProjectData.from_spreadsheet(D.to_spreadsheet(), F)


def rt_progset(ps, F, D):
    return at.ProgramSet.from_spreadsheet(ps.to_spreadsheet(), framework=F, data=D)


def roundtrip_checks(label, F, D, parset, ps, instr, settings):
    vs = []

    def P_for(F_, D_):
        P = at.Project(framework=F_, databook=sc.dcp(D_), do_run=False)
        P.settings.update_time_vector(start=settings[0], end=settings[1], dt=settings[2])
        return P

    # databook
    D2 = rt_data(D, F)
    D2.validate(F)
    d = close(data_content(D), data_content(D2))
    if d:
        vs.append(V("databook-content-changed", f"{label}: databook write/read changed content: {d}", None))
    D3 = rt_data(D2, F)
    D3.validate(F)
    d = close(data_content(D2), data_content(D3))
    if d:
        vs.append(V("databook-second-roundtrip", f"{label}: second databook round trip differs: {d}", None))
    # framework
    F2 = at.ProjectFramework(F.to_spreadsheet())
    for sheet in ("compartments", "parameters", "characteristics", "interactions"):
        a, b = getattr(F, {"compartments": "comps", "parameters": "pars", "characteristics": "characs", "interactions": "interactions"}[sheet]), getattr(F2, {"compartments": "comps", "parameters": "pars", "characteristics": "characs", "interactions": "interactions"}[sheet])
        ca = {str(i): {str(c): (None if (isinstance(x, float) and np.isnan(x)) or x is None else (float(x) if isinstance(x, (int, float, np.floating, np.integer)) and not isinstance(x, bool) else str(x))) for c, x in row.items()} for i, row in a.to_dict(orient="index").items()}
        cb = {str(i): {str(c): (None if (isinstance(x, float) and np.isnan(x)) or x is None else (float(x) if isinstance(x, (int, float, np.floating, np.integer)) and not isinstance(x, bool) else str(x))) for c, x in row.items()} for i, row in b.to_dict(orient="index").items()}
        d = close(ca, cb)
        if d:
            vs.append(V("framework-content-changed", f"{label}: framework sheet {sheet} changed by write/read: {d}", None))
    ta = {k: sorted(map(tuple, v)) for k, v in F.transitions.items()}
    tb = {k: sorted(map(tuple, v)) for k, v in F2.transitions.items()}
    if ta != tb:
        vs.append(V("framework-content-changed", f"{label}: transitions changed by framework write/read", None))
    # behaviour
    P1 = P_for(F, D)
    ps1 = sc.dcp(parset)
    r1 = P1.run_sim(ps1, ps, instr, store_results=False)
    P2 = P_for(F2, D2)
    ps2 = at.ParameterSet(F2, P2.data)
    ps2.load_calibration(parset.calibration_spreadsheet())
    prog2 = rt_progset(ps, F2, P2.data) if ps is not None else None
    r2 = P2.run_sim(ps2, prog2, instr, store_results=False)
    d = sim_close(r1, r2)
    if d:
        vs.append(V("roundtrip-changes-simulation", f"{label}: simulating the re-read framework/databook/program book/calibration differs: {d}", None))
    if ps is not None:
        d = close(progset_content(ps), progset_content(prog2))
        if d:
            vs.append(V("progbook-content-changed", f"{label}: program book write/read changed content: {d}", None))
        prog3 = rt_progset(prog2, F2, P2.data)
        d = close(progset_content(prog2), progset_content(prog3))
        if d:
            vs.append(V("progbook-second-roundtrip", f"{label}: second program book round trip differs: {d}", None))
    # calibration content
    yf1 = {k: (dict(p.y_factor), p.meta_y_factor) for k, p in parset.pars.items()}
    yf2 = {k: (dict(p.y_factor), p.meta_y_factor) for k, p in ps2.pars.items()}
    if yf1 != yf2:
        vs.append(V("calibration-content-changed", f"{label}: y-factors changed by calibration write/read", None))
    # binary: project and result
    tmp = tempfile.mkdtemp(prefix="c16_", dir="/dev/shm" if os.path.isdir("/dev/shm") else None)
    try:
        P1.parsets["default"] if "default" in P1.parsets else None
        fn = P1.save(os.path.join(tmp, "p.prj"))
        P3 = at.Project.load(fn)
        r3 = P3.run_sim(P3.parsets[0], sc.dcp(ps), instr, store_results=False)
        r1b = P1.run_sim(P1.parsets[0], ps, instr, store_results=False)
        a, b = arrays(r1b), arrays(r3)
        for k in a:
            if k[0] == "link" and k[-1] == "-":
                continue
            if k not in b or not np.array_equal(a[k], b[k], equal_nan=True):
                vs.append(V("project-binary-roundtrip", f"{label}: {k} not bit-identical after Project.save/load", None))
                break
        rfn = os.path.join(tmp, "r.obj")
        sc.save(rfn, r1)
        r4 = sc.load(rfn)
        a, b = arrays(r1), arrays(r4)
        if any(not np.array_equal(a[k], b.get(k), equal_nan=True) for k in a):
            vs.append(V("result-binary-roundtrip", f"{label}: result not bit-identical after save/load", None))
    finally:
        shutil.rmtree(tmp, ignore_errors=True)
    return vs, len(r1.model.t)


def run_rt_generated(case):
    spec = dict(gen_specs())[case["name"]]
    w = World(spec)
    vs, T = roundtrip_checks(f"generated:{case['name']}", w.F, w.D, w.parset, w.progset, w.instr, spec["sim"])
    return dict(states=T, transitions=5, traces=1, nontrivial=True, violations=vs[:5], counters=dict(roundtrips_generated=1))


def run_rt_own_axes(case):
    """a program book as a user edits it: ONE spending table (the k-th) has a year column of its own with a value in it.  The loaded program
    set holds that value and must keep it (and its effect on the run) through export and re-read."""
    from mc import xlsxmut as X

    spec = dict(gen_specs())["combined"]
    w = World(spec)
    blob = X.values_only(w.progset.to_spreadsheet().tofile().getvalue())
    wb = X.load(blob)
    ws = wb["Spending data"]
    heads = [r for r in range(1, ws.max_row + 1) if ws.cell(row=r, column=2).value == "Provenance"]
    h = heads[case["table"]]
    ncol = max(c for c in range(1, ws.max_column + 1) if ws.cell(row=h, column=c).value is not None) + 1
    ws.cell(row=h, column=ncol).value = case["year"]
    spend_row = h + 1
    ws.cell(row=spend_row, column=5).value = None  # no constant: year-specific values
    ws.cell(row=spend_row, column=7).value = 900.0
    ws.cell(row=spend_row, column=ncol).value = 2600.0
    ps = at.ProgramSet.from_spreadsheet(X.spreadsheet(X.dump(wb)), framework=w.F, data=w.D)
    prog = list(ps.programs.values())[case["table"]]
    vs = []
    if 2600.0 not in [float(v) for v in prog.spend_data.vals]:
        from mc.runner import HarnessError

        raise HarnessError("the edited value did not arrive in the loaded program set")
    ps2 = rt_progset(ps, w.F, w.D)
    d = close(progset_content(ps), progset_content(ps2))
    if d:
        vs.append(V("progbook-content-changed", f"program book with an own year column ({case['year']}) in spending table {case['table']}: write/read changed content: {d}", None))
    instr = at.ProgramInstructions(start_year=spec["sim"][0])
    r1 = w.P.run_sim(w.parset, ps, instr, store_results=False)
    r2 = w.P.run_sim(w.parset, ps2, instr, store_results=False)
    d = sim_close(r1, r2)
    if d:
        vs.append(V("roundtrip-changes-simulation", f"program book with an own year column ({case['year']}) in spending table {case['table']}: the re-read program set simulates differently: {d}", None))
    return dict(states=len(r1.model.t), transitions=2, traces=1, nontrivial=True, violations=vs[:3], counters=dict(roundtrips_own_axes=1))


def run_rt_library(case):
    name = case["name"]
    import atomica.library as lib

    try:
        F = at.ProjectFramework(at.LIBRARY_PATH / f"{name}_framework.xlsx")
        D = at.ProjectData.from_spreadsheet(at.LIBRARY_PATH / f"{name}_databook.xlsx", F)
    except Exception as e:
        # library files that do not load on this tree are C18's business
        return dict(states=0, transitions=0, nontrivial=False, violations=[], counters=dict(library_not_loadable=1))
    D.validate(F)
    P = at.Project(framework=F, databook=sc.dcp(D), do_run=False)
    pb = at.LIBRARY_PATH / f"{name}_progbook.xlsx"
    ps = instr = None
    if pb.exists():
        try:
            ps = at.ProgramSet.from_spreadsheet(pb, framework=F, data=P.data)
            instr = at.ProgramInstructions(start_year=P.settings.sim_start + 18)
        except Exception:
            ps = instr = None
    P.settings.update_time_vector(end=P.settings.sim_start + 22)
    vs, T = roundtrip_checks(f"library:{name}", F, P.data, P.parsets[0], ps, instr, (P.settings.sim_start, P.settings.sim_end, P.settings.sim_dt))
    return dict(states=T, transitions=5, traces=1, nontrivial=True, violations=vs[:5], counters=dict(roundtrips_library=1))


# ------------------------------------------------------------------ (b) edit histories

OPS = ["copy", "reload", "add_pop", "remove_pop", "remove_pop_label", "progset_drop_pop_label", "remove_par_label", "remove_program_label", "add_program", "remove_program", "remove_program_first", "add_par", "remove_par", "sample0", "reconcile_uc", "reconcile05", "reconcile_b", "reconcile_bo", "reconcile_ub", "loadcal_match", "loadcal_extra", "loadcal_missing"]


class State:
    def __init__(self):
        spec = simspace.combined_spec(0.25, v=0.3, dur=1.0, tj=0.2, pa=0.3, d=0.01, br=5.0, prog=True)
        spec["progs"]["covouts"][0]["imp"] = "P1+P2=0.95"
        for p in spec["pars"]:
            if p["name"] == "dr":
                p["targ"] = True
        w = World(spec)
        self.spec = spec
        self.F, self.D, self.parset, self.progset = w.F, w.D, w.parset, w.progset
        # one compartment table carries year-specific values only (written without a "Constant" column)
        for ts in self.D.tdve["sus"].ts.values():
            v0 = float(ts.assumption)
            ts.assumption = None
            ts.insert(2000.0, v0)
            ts.insert(2001.0, v0)
        self.parset = at.ParameterSet(self.F, self.D)
        self.parset.pars["vr"].y_factor["pa1"] = 0.8
        self.parset.pars["dr"].meta_y_factor = 1.3
        self.instr = at.ProgramInstructions(start_year=2001.0)

    def project(self, D=None):
        P = at.Project(framework=self.F, databook=sc.dcp(D if D is not None else self.D), do_run=False)
        s = self.spec["sim"]
        P.settings.update_time_vector(start=s[0], end=s[1], dt=s[2])
        return P

    def refresh_parset(self):
        """after a databook edit: new parameter set from the data, keeping the calibration"""
        old = self.parset
        self.parset = at.ParameterSet(self.F, self.D)
        for k, p in self.parset.pars.items():
            if k in old.pars:
                for pop in p.y_factor:
                    if pop in old.pars[k].y_factor:
                        p.y_factor[pop] = old.pars[k].y_factor[pop]
                p.meta_y_factor = old.pars[k].meta_y_factor


def _label(spec):
    return spec["label"] if isinstance(spec, dict) else getattr(spec, "label", spec)


def apply_op(st, op):
    """returns a list of violations specific to the operation (load_calibration semantics)"""
    vs = []
    if op == "copy":
        st.parset = st.parset.copy("copy of parset")
        st.progset = sc.dcp(st.progset)
        st.D = sc.dcp(st.D)
    elif op == "add_pop":
        # re-adds a population that was removed earlier in the history, otherwise a new one
        new = next((n for n in ("pb1", "pc1", "pd1") if n not in st.D.pops), None)
        if new is None:
            return vs
        st.D.add_pop(new, "Pop " + new)
        src = list(st.D.pops)[0]
        y0 = float(st.spec["sim"][0])
        for td in st.D.tdve.values():
            if src in td.ts and new in td.ts:
                # the new population's values are entered as constants (what the first population has at the start year)
                ts_new = sc.dcp(td.ts[src])
                ts_new.t, ts_new.vals = [], []
                ts_new.assumption = float(td.ts[src].interpolate(np.array([y0]))[0])
                td.ts[new] = ts_new
        st.progset.add_pop(new, "Pop " + new)
        st.refresh_parset()
    elif op in ("remove_pop", "remove_pop_label"):
        if len(st.D.pops) < 2:
            return vs
        victim = list(st.D.pops)[-1]
        st.D.remove_pop(victim)
        # the program set is told by code name or by the population's display name (both are documented)
        if victim in st.progset.pops:
            st.progset.remove_pop(victim if op == "remove_pop" else _label(st.progset.pops[victim]))
        st.refresh_parset()
    elif op == "progset_drop_pop_label":
        # the population stays in the databook; the program set stops covering it (told by display name)
        if len(st.progset.pops) < 2:
            return vs
        victim = list(st.progset.pops)[-1]
        st.progset.remove_pop(_label(st.progset.pops[victim]))
    elif op == "remove_par_label":
        if "vr" in st.progset.pars:
            st.progset.remove_par(_label(st.progset.pars["vr"]))
    elif op == "remove_program_label":
        if len(st.progset.programs) < 2:
            return vs
        st.progset.remove_program(list(st.progset.programs.values())[0].label)
    elif op == "reload":
        # the live objects are replaced by what a user gets who saves everything and opens the files again
        sh = rebuilt(st)
        st.D, st.parset, st.progset = sh.D, sh.parset, sh.progset
    elif op == "add_program":
        new = "P3" if "P3" not in st.progset.programs else "P4"
        if new in st.progset.programs:
            return vs
        st.progset.add_program(new, "Prog " + new)
        p = st.progset.programs[new]
        p.target_pops = [list(st.progset.pops)[0]]
        p.target_comps = ["sus"]
        year = float(np.asarray(st.progset.tvec).ravel()[0])  # a year of the program book's own time axis (values for other years are not part of the exported tables)
        p.spend_data.insert(year, 123.0)
        p.unit_cost.insert(year, 7.0)
    elif op in ("remove_program", "remove_program_first"):
        # the last program, or the first one (which is the only program of one of the effects: that effect keeps its baseline and no program)
        if len(st.progset.programs) < 2:
            return vs
        st.progset.remove_program(list(st.progset.programs)[-1 if op == "remove_program" else 0])
    elif op == "add_par":
        if "dr" not in st.progset.pars:
            st.progset.add_par("dr", "P dr")
    elif op == "remove_par":
        if "vr" in st.progset.pars and len(st.progset.pars) > 0:
            st.progset.remove_par("vr")
    elif op == "sample0":
        if getattr(st, "sampled", False):
            return vs  # the library allows an object to be sampled once only
        st.sampled = True
        np.random.seed(5)
        for c in st.progset.covouts.values():
            c.sigma = 0.0
        st.progset = st.progset.sample()
        st.parset = st.parset.sample()
    elif op.startswith("reconcile"):
        # every non-empty subset of the three groups of quantities reconciliation may move (unit costs, baselines, outcomes), each within 5%;
        # reconcile_uc = unit costs only, reconcile05 = all three.  Outcomes only enter the search vector together with the baselines
        # (reconciliation._prepare_asd_inputs), so "o" alone has nothing to adjust (the third-party optimiser refuses an empty vector) and
        # "uo" is the same as "u": those two subsets are not in the alphabet
        groups = {"reconcile_uc": "u", "reconcile05": "ubo"}.get(op) or op.split("_")[1]
        if not st.progset.covouts:
            return vs
        P = st.project()
        with scripted([1, 3, 0, 2, 5, 4, 1]):
            new, _, _ = at.reconcile(P, st.parset, st.progset, 2001.0, max_time=1e9, unit_cost_bounds=0.05 if "u" in groups else 0.0, baseline_bounds=0.05 if "b" in groups else 0.0, outcome_bounds=0.05 if "o" in groups else 0.0)
        st.progset = new
    elif op.startswith("loadcal"):
        before = {k: (dict(p.y_factor), p.meta_y_factor) for k, p in st.parset.pars.items()}
        df = pd.DataFrame(st.parset.y_factors).T
        df.index.set_names(["par", "pop"], inplace=True)
        df = df.reset_index()
        expect = {k: (dict(v[0]), v[1]) for k, v in before.items()}
        if op == "loadcal_match":
            df.loc[df["par"] == "vr", "meta_y_factor"] = 1.7
            expect["vr"] = (expect["vr"][0], 1.7)
        elif op == "loadcal_extra":
            extra = pd.DataFrame([dict(par="zz_unknown", pop=np.nan, meta_y_factor=3.0), dict(par="zz2_unknown", pop=np.nan, meta_y_factor=2.0)])
            df = pd.concat([extra, df, extra.iloc[:1].assign(par="zz3_unknown", pop="pa1")], ignore_index=True)
        else:
            df = df[df["par"] != "dr"]  # entries for 'dr' are missing: existing values must be kept
            df.loc[df["par"] == "vr", "meta_y_factor"] = np.nan  # a blank cell is a missing entry too
        f = io.BytesIO()
        with pd.ExcelWriter(f, engine="xlsxwriter") as wtr:
            df.to_excel(wtr, sheet_name="Y-factors", index=False)
        f.seek(0)
        ss = sc.Spreadsheet(f)
        try:
            st.parset.load_calibration(ss)
        except Exception as e:
            vs.append(V(f"load-calibration-raised:{type(e).__name__}", f"load_calibration with {op.split('_')[1]} entries raised {type(e).__name__}: {str(e)[:150]}", None))
            return vs
        after = {k: (dict(p.y_factor), p.meta_y_factor) for k, p in st.parset.pars.items()}
        if after != expect:
            bad = [k for k in after if after[k] != expect[k]][:3]
            vs.append(V("load-calibration-semantics", f"load_calibration ({op}): y-factors of {bad} are {[after[k] for k in bad]}, expected {[expect[k] for k in bad]}", None))
    return vs


def check_state(st, hist):
    """the objects simulate the same as the objects rebuilt from their own exported spreadsheets; export is a fixed point"""
    vs = []
    P1 = st.project()
    ps_own = st.progset if st.progset.covouts or st.progset.programs else None
    try:
        r1 = P1.run_sim(st.parset, st.progset, st.instr, store_results=False)
    except Exception as e:
        vs.append(V(f"edited-objects-do-not-run:{type(e).__name__}", f"after {hist}: simulating the edited objects raised {type(e).__name__}: {str(e)[:150]}", None))
        return vs
    try:
        D2 = rt_data(st.D, st.F)
        D2.validate(st.F)
        P2 = st.project(D2)
        ps2 = at.ParameterSet(st.F, P2.data)
        ps2.load_calibration(st.parset.calibration_spreadsheet())
        prog2 = rt_progset(st.progset, st.F, P2.data)
        r2 = P2.run_sim(ps2, prog2, st.instr, store_results=False)
    except Exception as e:
        vs.append(V(f"own-export-does-not-load:{type(e).__name__}", f"after {hist}: the objects' own exported spreadsheets cannot be read back / run: {type(e).__name__}: {str(e)[:150]}", None))
        return vs
    d = sim_close(r1, r2)
    if d:
        vs.append(V("object-differs-from-its-export", f"after {hist}: the edited objects and the objects rebuilt from their exported spreadsheets simulate differently: {d}", None))
    prog3 = rt_progset(prog2, st.F, P2.data)
    d = close(progset_content(prog2), progset_content(prog3))
    if d:
        vs.append(V("export-not-fixed-point", f"after {hist}: program book export -> import -> export is not a fixed point: {d}", None))
    return vs


def rebuilt(st):
    """a State whose databook / parameter set / program set are rebuilt from the exported spreadsheets of `st` (nothing hidden survives)"""
    sh = State.__new__(State)
    sh.spec, sh.F, sh.instr = st.spec, st.F, st.instr
    sh.sampled = False
    sh.D = rt_data(st.D, st.F)
    sh.D.validate(st.F)
    sh.parset = at.ParameterSet(st.F, sh.D)
    sh.parset.load_calibration(st.parset.calibration_spreadsheet())
    sh.progset = rt_progset(st.progset, st.F, sh.D)
    return sh


def run_history(case):
    st = State()
    vs = []
    n = 0
    for i, op in enumerate(case["hist"]):
        # differential oracle: the same operation applied to the objects rebuilt from the exports of the previous state must lead to the same behaviour
        try:
            shadow = rebuilt(st)
        except Exception:
            shadow = None
        vs += apply_op(st, op)
        n += 1
        vs += check_state(st, case["hist"][: i + 1])
        if not vs and shadow is not None and not op.startswith("sample"):
            try:
                apply_op(shadow, op)
                r_live = st.project().run_sim(st.parset, st.progset, st.instr, store_results=False)
                r_sh = shadow.project().run_sim(shadow.parset, shadow.progset, shadow.instr, store_results=False)
                d = sim_close(r_live, r_sh)
                if d:
                    vs.append(V("hidden-state-survives", f"after {case['hist'][: i + 1]}: applying {op} to the live objects and to the objects rebuilt from their previous export gives different behaviour: {d}", None))
            except Exception as e:
                vs.append(V(f"operation-fails-on-rebuilt-objects:{type(e).__name__}", f"after {case['hist'][: i + 1]}: {op} works on the live objects but raises {type(e).__name__} on the objects rebuilt from their export: {str(e)[:120]}", None))
        if vs:
            break
    return dict(states=n + 1, transitions=n, traces=n, nontrivial=len(case["hist"]) > 1, violations=vs[:3], digest=snap_hash([st.D, st.parset, st.progset]), counters=dict(edit_histories=1))


def run_case(case):
    return dict(roundtrip_generated=run_rt_generated, roundtrip_own_axes=run_rt_own_axes, roundtrip_library=run_rt_library, history=run_history)[case["kind"]](case)
