"""C03 - documented unit conversion on an exact dt grid: (a) explicit-state BFS over ProjectSettings, (b) trajectory conformance with the reference simulator"""

import copy
import itertools
import math
from fractions import Fraction

import numpy as np
import atomica as at

from mc import simspace, refsim, conform
from mc.oracles import V
from mc.build import run_spec

LEVEL = "model_checking"
RULE = (
    "(a) breadth-first search over ProjectSettings states reached by sequences of constructor / update_time_vector / property-setter calls over the start, end and dt alphabets "
    "(state = (start, end, dt), deduplicated exactly), grid invariants evaluated in every state with exact rational arithmetic on the inputs; "
    "(b) every model of the product spaces in mc/simspace.py is run on the real simulator AND on the independent reference simulator mc/refsim.py and compared at every time index "
    "(stocks, elapsed-time bins, flows, parameters, characteristics; rtol 1e-8); the same for the 16 library models that can be imported into the reference simulator, with and without their program books. Non-trivial: (a) a state whose span is not a multiple of dt or whose dt is not exactly representable; (b) a run with a non-zero flow."
)
ASSUMPTIONS = [
    "reference simulator written from the documentation (mc/refsim.py); its traces are bound to the implementation by the comparison itself (traces_validated_against_impl)",
    "bounds of mc/simspace.py; settings alphabets listed in mc/props/c03.py; operation sequences up to the stated depth",
    "an end year / span is 'k steps' when (end-start)/dt is within 1e-9 of an integer (the property's 'up to rounding error')",
    "library models: structure, numbers and function strings are imported from the loaded framework / parameter set / program set; initial compartment sizes are taken from the implementation's index 0 (initialisation is C07's subject); malaria (no databook, derivative parameters) and combined (several population types) are not imported",
]
CASE_TIMEOUT = 300

STARTS = dict(quick=["2000", "2000.4"], thorough=["2000", "2000.5", "1995.25", "2000.4"])
SPANS = dict(quick=["1", "2.5", "35"], thorough=["1", "2.5", "2.6", "10", "35"])
DTSX = dict(quick=["1", "0.25", "0.1", "0.3", "1/12"], thorough=["1", "0.5", "0.25", "0.2", "0.1", "0.3", "0.7", "1/12", "1/52", "1/365", "2"])


def F(s):
    return Fraction(s)


def fl(fr):
    return fr.numerator / fr.denominator


def kceil(x: Fraction) -> int:
    """ceil of an exact ratio"""
    return math.ceil(x)


def cases(tier):
    for s in STARTS[tier]:
        for dt in DTSX[tier]:
            yield dict(kind="grid", start=s, dt=dt, tier=tier, depth=2)
    if tier == "thorough":
        for s in STARTS["quick"]:
            for dt in DTSX["quick"]:
                yield dict(kind="grid", start=s, dt=dt, tier="quick", depth=3)
    for name in LIBRARY:
        for dt in (None,) if tier == "quick" else (None, 1.0, 0.1, 1 / 12):
            for progs in (False, True):
                yield dict(kind="library", name=name, dt=dt, progs=progs, years=6 if tier == "quick" else 12)
    yield from ({"kind": "sim", "spec": s} for s in simspace.all_sim(tier))


LIBRARY = ["sir", "sir_vaccine", "udt", "udt_dyn", "usdt", "dt", "service", "tb_simple", "tb_simple_dyn", "hypertension", "hypertension_dyn", "cervicalcancer", "diabetes", "hiv", "hiv_dyn", "tb"]


def run_library(case):
    """a library model is imported into the reference simulator's spec format (numbers + structure + function strings) and both are compared at every index"""
    import warnings

    warnings.filterwarnings("ignore")
    from mc import libimport

    name = case["name"]
    P = at.Project(framework=at.LIBRARY_PATH / f"{name}_framework.xlsx", databook=at.LIBRARY_PATH / f"{name}_databook.xlsx", do_run=False)
    kw = dict(end=P.settings.sim_start + case["years"])
    if case["dt"]:
        kw["dt"] = case["dt"]
    P.settings.update_time_vector(**kw)
    ps = ins = None
    pb = at.LIBRARY_PATH / f"{name}_progbook.xlsx"
    if case["progs"]:
        if not pb.exists():
            return dict(states=0, transitions=0, nontrivial=False, violations=[], counters=dict(library_without_progbook=1))
        ps = at.ProgramSet.from_spreadsheet(pb, framework=P.framework, data=P.data)
        start = P.settings.sim_start + 2
        ins = at.ProgramInstructions(start_year=start)
    r = P.run_sim(P.parsets[0], ps, ins, store_results=False)
    try:
        spec = libimport.spec_from_project(P, P.parsets[0], r)
        if ps is not None:
            spec["progs"] = libimport.progs_from_progset(ps, start)
    except libimport.Unsupported as e:
        return dict(states=0, transitions=0, nontrivial=False, violations=[], counters=dict(library_unsupported=1))
    tr = refsim.simulate(spec)
    vs = conform.compare(tr, r)
    for v in vs:
        v["what"] = f"library model {name} (dt={case['dt']}, programs={case['progs']}): " + v["what"]
    T = len(tr.t)
    return dict(states=T, transitions=T - 1, traces=1, nontrivial=True, violations=vs[:5], counters=dict(library_traces=1))


def ops_for(tier):
    st, sp, dts = STARTS[tier], SPANS[tier], DTSX[tier]
    ops = []
    for s in st:
        ops.append(("utv", s, None, None))
        ops.append(("set_start", s))
    for d in dts:
        ops.append(("utv", None, None, d))
        ops.append(("set_dt", d))
    ends = sorted({str(F(s) + F(x)) for s in st for x in sp}, key=F)
    for e in ends:
        ops.append(("utv", None, e, None))
        ops.append(("set_end", e))
    for s, e in itertools.product(st, ends):
        if F(e) > F(s):
            ops.append(("utv", s, e, None))
    for s, d in itertools.product(st, dts):
        ops.append(("utv", s, None, d))
    for e, d in itertools.product(ends, dts):
        ops.append(("utv", None, e, d))
    for s, e, d in itertools.product(st, ends, dts):
        if F(e) > F(s):
            ops.append(("utv", s, e, d))
    ops.append(("self_end",))
    ops.append(("self_dt",))
    return ops


def apply(S, op):
    k = op[0]
    if k == "utv":
        kw = {}
        if op[1] is not None:
            kw["start"] = fl(F(op[1]))
        if op[2] is not None:
            kw["end"] = fl(F(op[2]))
        if op[3] is not None:
            kw["dt"] = fl(F(op[3]))
        S.update_time_vector(**kw)
    elif k == "set_start":
        S.sim_start = fl(F(op[1]))
    elif k == "set_dt":
        S.sim_dt = fl(F(op[1]))
    elif k == "set_end":
        S.sim_end = fl(F(op[1]))
    elif k == "self_end":
        S.sim_end = S.sim_end
    elif k == "self_dt":
        S.sim_dt = S.sim_dt


def grid_ok(S, tol=1e-9):
    """Invariant A: tvec[k] = start + k*dt, last point = sim_end"""
    tv = S.tvec
    st, dt, en = S.sim_start, S.sim_dt, S.sim_end
    K = len(tv) - 1
    if abs(tv[0] - st) > tol:
        return f"tvec[0]={tv[0]!r} != start {st!r}"
    exp = st + np.arange(K + 1) * dt
    if not np.allclose(tv, exp, rtol=0, atol=tol):
        i = int(np.argmax(np.abs(tv - exp) > tol))
        return f"tvec[{i}]={tv[i]!r} but start+{i}*dt={exp[i]!r} (n={K+1}, spacing {(tv[-1]-tv[0])/max(K,1)!r} vs dt {dt!r})"
    if abs(tv[-1] - en) > tol:
        return f"last point {tv[-1]!r} != sim_end {en!r}"
    return None


def build(hist):
    start, dt = hist[0][1], hist[0][2]
    S = at.ProjectSettings(sim_start=fl(F(start)), sim_end=fl(F(hist[0][3])), sim_dt=fl(F(dt)))
    for op in hist[1:]:
        apply(S, op)
    return S


def explore_grid(case):
    tier = case["tier"]
    ops = ops_for(tier)
    depth = case.get("depth", 2)
    viols = []
    seen = set()
    frontier = []
    states = transitions = nontriv = 0

    def canon(S):
        return (round(S.sim_start, 9), round(S.sim_end, 9), round(S.sim_dt, 12))

    def check_state(S, hist, exact):
        """exact = (start, requested_end, dt) Fractions when the last op fixed the end, else None"""
        msg = grid_ok(S)
        if msg:
            viols.append(V("grid-not-on-dt", f"after {hist}: {msg}", dict(hist=hist)))
            return False
        if exact is not None:
            s, e, d = exact
            K = kceil((e - s) / d)
            exp_end = fl(s + K * d)
            if abs(S.sim_end - exp_end) > 1e-9 or len(S.tvec) != K + 1:
                viols.append(V("grid-wrong-end", f"after {hist}: start={fl(s)!r} end={fl(e)!r} dt={fl(d)!r}: expected {K+1} points ending at {exp_end!r}, got {len(S.tvec)} ending at {S.sim_end!r}", dict(hist=hist)))
                return False
        return True

    for span in SPANS[tier]:
        h0 = [("new", case["start"], case["dt"], str(F(case["start"]) + F(span)))]
        S = build(h0)
        states += 1
        check_state(S, h0, (F(case["start"]), F(h0[0][3]), F(case["dt"])))
        k = canon(S)
        if k not in seen:
            seen.add(k)
            frontier.append((h0, F(case["start"]), F(case["dt"])))
    level = 0
    while frontier and level < depth:
        nxt = []
        for hist, s_ex, d_ex in frontier:
            base = build(hist)  # the state is the history that reaches it; successors start from a copy of the replayed state
            for op in ops:
                new_start = op[1] if op[0] in ("utv", "set_start") else None
                gives_end = (op[0] == "utv" and op[2] is not None) or op[0] == "set_end"
                if new_start is not None and not gives_end and fl(F(new_start)) > base.sim_end:
                    continue  # start year after the end year: outside the property
                S = copy.copy(base)
                before = (S.sim_start, S.sim_end, S.sim_dt, len(S.tvec))
                apply(S, op)
                transitions += 1
                h2 = hist + [op]
                s2, d2, exact = s_ex, d_ex, None
                if op[0] == "utv":
                    s2 = F(op[1]) if op[1] is not None else s_ex
                    d2 = F(op[3]) if op[3] is not None else d_ex
                    if op[2] is not None:
                        exact = (s2, F(op[2]), d2)
                elif op[0] == "set_start":
                    s2 = F(op[1])
                elif op[0] == "set_dt":
                    d2 = F(op[1])
                elif op[0] == "set_end":
                    exact = (s_ex, F(op[1]), d_ex)
                if exact is not None and exact[1] <= exact[0]:
                    continue  # end before start: outside the property
                ok = check_state(S, h2, exact)
                if op[0] in ("self_end", "self_dt"):
                    after = (S.sim_start, S.sim_end, S.sim_dt, len(S.tvec))
                    if any(abs(a - b) > 1e-9 for a, b in zip(before, after)):
                        viols.append(V("grid-not-idempotent", f"after {hist}: assigning {'sim_end' if op[0]=='self_end' else 'sim_dt'} its own value changed (start,end,dt,n) {before} -> {after}", dict(hist=h2)))
                        ok = False
                elif exact is None and ok:
                    # start and/or dt changed without stating an end: the end may only move forward to the next grid point(s)
                    if S.sim_end < before[1] - 1e-9 or S.sim_end > before[1] + before[2] + S.sim_dt + 1e-9:
                        viols.append(V("grid-end-moved", f"after {h2}: end moved from {before[1]!r} to {S.sim_end!r}", dict(hist=h2)))
                if (d2.denominator not in (1, 2, 4)) or ((F(str(before[1])) - s2) / d2).denominator != 1:
                    nontriv += 1
                k = canon(S)
                if k not in seen:
                    seen.add(k)
                    states += 1
                    if ok:
                        nxt.append((h2, s2, d2))
                if len(viols) > 30:
                    break
            if len(viols) > 30:
                break
        frontier = nxt
        level += 1
    # one representative per key keeps replays small
    byk = {}
    for v in viols:
        byk.setdefault(v["key"], v)
    return dict(states=states, transitions=transitions, nontrivial=nontriv > 0, violations=list(byk.values()), counters=dict(grid_states=states, grid_transitions=transitions, grid_nontrivial_transitions=nontriv), digest=f"grid-{case['start']}-{case['dt']}-{states}")


def run_case(case):
    if case["kind"] == "grid":
        return explore_grid(case)
    if case["kind"] == "library":
        return run_library(case)
    spec = case["spec"]
    g = spec.get("gadget")
    if g is not None and not g["ok"]:
        return dict(states=0, transitions=0, nontrivial=False, violations=[], counters=dict(out_of_domain=1))
    w, r = run_spec(spec)
    tr = refsim.simulate(spec)
    vs = conform.compare(tr, r)
    T = len(tr.t)
    nz = any(any(x and x == x for x in f[:-1]) for f in tr.link.values())
    return dict(states=T, transitions=T - 1, traces=1, nontrivial=nz, violations=vs, counters={"tag_" + spec.get("tag", "?"): 1})
