"""C11 - program coverage is a bounded, monotone function of spending"""

import itertools
import math
import numpy as np
import atomica as at

from mc.oracles import V
from mc import refprog
from mc.build import make_ts
from mc.snapshot import snap_hash

LEVEL = "exploration"
RULE = (
    "Exhaustive grid on the real functions: spending {0,1,10,99,100,101,1e3,1e6} x unit cost {0.5,1,10} x capacity constraint {none, per year, absolute} x saturation {none,.5,.9,1,2} "
    "x eligible {0,1,50,1e4} x {one-off, continuous} x dt {1,.25,1/12,1/365} through Program.get_capacity / get_prop_covered; EVERY ordered pair of spending levels and of unit costs is compared for monotonicity; "
    "plus ProgramSet.get_capacities / get_prop_coverage with every subset of {coverage, capacity, spending} overwrites and two-point stepped series evaluated before/at/between/after the entered years. "
    "Non-trivial = grid points with 0 < coverage < 1."
)
ASSUMPTIONS = [
    "the claim is over continuous inputs; only the grid (and every ordered pair of its points) is decided",
    "reference formulas in mc/refprog.py are written from docs/general/programs/Programs.rst",
]
CASE_TIMEOUT = 300

SPEND = [0.0, 1.0, 10.0, 99.0, 100.0, 101.0, 1e3, 1e6]
UC = [0.5, 1.0, 10.0]
CAPC = [None, ("year", 50.0), ("abs", 50.0)]
SAT = [None, 0.5, 0.9, 1.0, 2.0]
ELIG = [0.0, 1.0, 50.0, 1e4]
DTS = [1.0, 0.25, 1 / 12, 1 / 365]


THOROUGH = dict(
    SPEND=[0.0, 0.5, 1.0, 10.0, 49.0, 50.0, 51.0, 99.0, 100.0, 101.0, 499.0, 500.0, 501.0, 1e3, 1e4, 1e6, 1e9],
    UC=[0.01, 0.5, 1.0, 2.0, 10.0, 1e3],
    ELIG=[0.0, 1e-9, 0.5, 1.0, 49.0, 50.0, 51.0, 100.0, 1e4, 1e8],
    CAPC=[None, ("year", 50.0), ("abs", 50.0), ("year", 0.0), ("abs", 1e9), ("year", 1.0)],
    SAT=[None, 0.1, 0.5, 0.9, 0.999, 1.0, 1.5, 2.0, 10.0],
)


def cases(tier):
    dts = DTS if tier == "thorough" else DTS[:3]
    capcs, sats = (THOROUGH["CAPC"], THOROUGH["SAT"]) if tier == "thorough" else (CAPC, SAT)
    for oneoff, capc, sat in itertools.product([True, False], capcs, sats):
        yield dict(kind="grid", oneoff=oneoff, capc=capc, sat=sat, dts=dts, tier=tier)
    for oneoff in (True, False):
        for subset in itertools.product([False, True], repeat=3):
            for dt in dts:
                yield dict(kind="overwrites", oneoff=oneoff, cov=subset[0], cap=subset[1], alloc=subset[2], dt=dt)
                if any(subset):
                    yield dict(kind="overwrites", oneoff=oneoff, cov=subset[0], cap=subset[1], alloc=subset[2], dt=dt, zero=True)  # the overwrite values are exactly 0
                    # the overwritten program is the first / the last of a set of three; overwrite values so large that the per-step coverage exceeds 1
                    for pos in ("first", "last"):
                        yield dict(kind="overwrites", oneoff=oneoff, cov=subset[0], cap=subset[1], alloc=subset[2], dt=dt, big=True, others=pos)
    for oneoff in (True, False):
        for field in ("spend", "uc", "cap", "sat"):
            yield dict(kind="stepped", oneoff=oneoff, field=field)


def make_prog(oneoff, uc, capc, sat, spend=100.0):
    p = at.Program("P1", "Prog 1", target_pops=["pa"], target_comps=["a"])
    p.spend_data = make_ts(spend, "$/year")
    p.unit_cost = make_ts(uc, "$/person (one-off)" if oneoff else "$/person/year")
    if capc is not None:
        p.capacity_constraint = make_ts(capc[1], "people/year" if capc[0] == "year" else "people")
    if sat is not None:
        p.saturation = make_ts(sat, "N.A.")
    return p


def pr_spec(oneoff, uc, capc, sat):
    return dict(oneoff=oneoff, uc=uc, cap=None if capc is None else capc[1], cap_abs=bool(capc and capc[0] == "abs"), sat=sat)


def run_grid(case):
    oneoff, capc, sat = case["oneoff"], case["capc"], case["sat"]
    capc = tuple(capc) if capc else None
    vs = []
    n = nontriv = pairs = 0
    t = 2020.0
    per_year = {}
    SPEND, UC, ELIG = (THOROUGH["SPEND"], THOROUGH["UC"], THOROUGH["ELIG"]) if case.get("tier") == "thorough" else (globals()["SPEND"], globals()["UC"], globals()["ELIG"])
    for dt in case["dts"]:
        cov = {}
        for uc in UC:
            prog = make_prog(oneoff, uc, capc, sat)
            spec = pr_spec(oneoff, uc, capc, sat)
            for s in SPEND:
                sp = np.array([float(s)])
                cap = prog.get_capacity(tvec=np.array([t]), spending=sp, dt=dt)
                capv = float(np.asarray(cap).ravel()[0])
                # the caller's spending vector is an input: evaluating it again (same array) must give the same capacity and leave it alone
                cap_again = float(np.asarray(prog.get_capacity(tvec=np.array([t]), spending=sp, dt=dt)).ravel()[0])
                if sp[0] != float(s) or cap_again != capv:
                    vs.append(V("capacity-evaluation-not-pure", f"oneoff={oneoff} uc={uc} cap={capc} dt={dt!r}: spending array [{float(s)}] is {sp.tolist()} after two evaluations, capacities {capv!r} then {cap_again!r}", None))
                ref_cap = refprog.prog_capacity(spec, s, t, dt)
                if abs(capv - ref_cap) > 1e-12 * max(1.0, abs(ref_cap)):
                    vs.append(V("capacity-formula", f"oneoff={oneoff} uc={uc} cap={capc} dt={dt!r} spend={s}: capacity {capv!r}, documented {ref_cap!r}", None))
                if capc is not None:
                    lim = capc[1] * (dt if capc[0] == "year" else 1.0)
                    if capv > lim * (1 + 1e-12):
                        vs.append(V("capacity-exceeds-constraint", f"capacity {capv!r} > constraint {lim!r} (oneoff={oneoff} uc={uc} dt={dt!r} spend={s})", None))
                if oneoff and capc is None:
                    per_year.setdefault((uc, s), []).append((dt, capv / dt))
                for el in ELIG:
                    c = prog.get_prop_covered(np.array([t]), np.array([capv]), np.array([el]))
                    c = float(np.asarray(c).ravel()[0])
                    n += 1
                    cov[(uc, s, el)] = c
                    if 0 < c < 1:
                        nontriv += 1
                    ref = refprog.prog_prop_covered(spec, capv, el, t)
                    where = f"oneoff={oneoff} uc={uc} cap={capc} sat={sat} dt={dt!r} spend={s} eligible={el}"
                    if not (0 <= c <= 1):
                        vs.append(V("coverage-out-of-range", f"{where}: coverage {c!r}", None))
                    elif abs(c - ref) > 1e-12:
                        vs.append(V("coverage-formula", f"{where}: coverage {c!r}, documented {ref!r}", None))
                    if sat is not None and c > min(sat, 1.0) + 1e-12:
                        vs.append(V("coverage-exceeds-saturation", f"{where}: coverage {c!r}", None))
                    if el == 0 and abs(c - (1.0 if sat is None else min(sat, 1.0))) > 1e-12:
                        vs.append(V("nobody-eligible", f"{where}: coverage {c!r} but nobody is eligible", None))
                    if sat is None and el > 0 and capv < el and abs(c - capv / el) > 1e-12:
                        vs.append(V("coverage-not-capacity-over-eligible", f"{where}: {c!r} != {capv / el!r}", None))
        # monotonicity over every ordered pair
        for uc in UC:
            for el in ELIG:
                for s1, s2 in itertools.combinations(SPEND, 2):
                    pairs += 1
                    if cov[(uc, s2, el)] < cov[(uc, s1, el)] - 1e-15:
                        vs.append(V("not-monotone-in-spending", f"oneoff={oneoff} uc={uc} cap={capc} sat={sat} dt={dt!r} eligible={el}: spending {s1}->{s2} lowers coverage {cov[(uc, s1, el)]!r}->{cov[(uc, s2, el)]!r}", None))
        for s in SPEND:
            for el in ELIG:
                for u1, u2 in itertools.combinations(UC, 2):
                    pairs += 1
                    if cov[(u2, s, el)] > cov[(u1, s, el)] + 1e-15:
                        vs.append(V("not-monotone-in-unit-cost", f"oneoff={oneoff} cap={capc} sat={sat} dt={dt!r} spend={s} eligible={el}: unit cost {u1}->{u2} raises coverage", None))
        if len(vs) > 6:
            break
    for (uc, s), lst in per_year.items():
        ref = lst[0][1]
        for dt, v in lst[1:]:
            if abs(v - ref) > 1e-9 * max(1.0, abs(ref)):
                vs.append(V("annual-reach-depends-on-dt", f"one-off program uc={uc} spend={s}: capacity/dt is {ref!r} at dt={lst[0][0]!r} but {v!r} at dt={dt!r}", None))
    return dict(states=0, transitions=0, nontrivial=nontriv > 0, violations=vs[:6], counters=dict(grid_points=n, grid_points_fractional=nontriv, ordered_pairs=pairs))


_W = {}


def one_prog_set(oneoff, spend=100.0, uc=2.0):
    """a real ProgramSet (built against a generated two-compartment framework) holding one program"""
    from mc import simspace
    from mc.build import World
    import sciris as sc

    if "w" not in _W:
        spec = simspace.base_spec(["a", "b"], 0.25)
        simspace.add_edge(spec, "a", "b", ("probability", None, 0.3), name="mv")
        spec["pars"][0]["targ"] = True
        spec["progs"] = dict(progs=[dict(name="P1", pops=["pa"], comps=["a"], spend=100.0, uc=2.0, oneoff=True)], covouts=[dict(par="mv", pop="pa", base=0.1, progs={"P1": 0.5})], instr=dict(start=2000.0))
        _W["w"] = World(spec)
    ps = sc.dcp(_W["w"].progset)
    p = make_prog(oneoff, uc, None, None, spend=spend)
    ps.programs["P1"] = p
    return ps


def run_overwrites(case):
    oneoff, dt = case["oneoff"], case["dt"]
    t = np.array([2020.0, 2021.0])
    ps = one_prog_set(oneoff)
    if case.get("others"):
        # two more programs in the set, after / before the overwritten one
        import sciris as sc

        progs = sc.odict()
        extra = [("Q1", make_prog(True, 3.0, None, None, spend=30.0)), ("Q2", make_prog(False, 5.0, None, None, spend=70.0))]
        for k_, v_ in (([("P1", ps.programs["P1"])] + extra) if case["others"] == "first" else (extra + [("P1", ps.programs["P1"])])):
            v_.name = k_
            progs[k_] = v_
        ps.programs = progs
    kw = {}
    z = bool(case.get("zero"))
    vcov, vcap, valloc = (0.0, 0.0, 0.0) if z else ((7.0, 900.0, 4000.0) if case.get("big") else (0.3, 20.0, 60.0))
    if case["cov"]:
        kw["coverage"] = {"P1": vcov}
    if case["cap"]:
        kw["capacity"] = {"P1": vcap}
    if case["alloc"]:
        kw["alloc"] = {"P1": valloc}
    ins = at.ProgramInstructions(start_year=2020.0, **kw)
    h0 = (snap_hash(ps), snap_hash(ins))
    elig = 80.0
    caps = ps.get_capacities(tvec=t, dt=dt, instructions=ins)
    cov = ps.get_prop_coverage(tvec=t, dt=dt, capacities=caps, num_eligible={k_: np.array([elig, elig]) for k_ in ps.programs}, instructions=ins)
    for k_, v_ in cov.items():
        if np.any(np.asarray(v_) > 1 + 1e-12) or np.any(np.asarray(v_) < 0):
            vs_pre = V("coverage-out-of-range", f"oneoff={oneoff} dt={dt!r} overwrites={sorted(kw)} big={bool(case.get('big'))} position={case.get('others')}: coverage of {k_} is {np.asarray(v_).tolist()}", None)
            return dict(states=0, transitions=0, nontrivial=True, violations=[vs_pre], counters=dict(overwrite_cases=1))
    vs = []
    k = dt if oneoff else 1.0
    exp_cap = vcap * k if case["cap"] else (valloc if case["alloc"] else 100.0) / 2.0 * k
    if case["cov"]:
        exp_cov = min(vcov * k, 1.0)
    else:
        exp_cov = min(exp_cap / elig, 1.0)
    got_cap = float(caps["P1"][0])
    got_cov = float(cov["P1"][0])
    lab = f"oneoff={oneoff} dt={dt!r} overwrites={[k for k in ('coverage', 'capacity', 'alloc') if k in kw]}" + (" with value 0" if z else "") + (f" large values, overwritten program {case['others']} of three" if case.get("others") else "")
    if abs(got_cap - exp_cap) > 1e-12 * max(1, exp_cap):
        vs.append(V("overwrite-precedence-capacity", f"{lab}: capacity {got_cap!r}, expected {exp_cap!r}", None))
    if abs(got_cov - exp_cov) > 1e-12:
        vs.append(V("overwrite-precedence-coverage", f"{lab}: coverage {got_cov!r}, expected {exp_cov!r}", None))
    if (snap_hash(ps), snap_hash(ins)) != h0:
        vs.append(V("inputs-modified", f"{lab}: computing capacities/coverage changed the program set or the instructions", None))
    # calling twice gives the same answer (spending *= dt must act on a private array)
    caps2 = ps.get_capacities(tvec=t, dt=dt, instructions=ins)
    if not np.array_equal(caps2["P1"], caps["P1"]):
        vs.append(V("capacity-not-repeatable", f"{lab}: second call returns {caps2['P1'].tolist()} after {caps['P1'].tolist()}", None))
    return dict(states=0, transitions=0, nontrivial=True, violations=vs, counters=dict(overwrite_cases=1))


def run_stepped(case):
    oneoff, field = case["oneoff"], case["field"]
    series = {"t": [2000.0, 2002.0], "v": [40.0, 160.0]} if field in ("spend",) else {"t": [2000.0, 2002.0], "v": {"uc": [2.0, 8.0], "cap": [10.0, 40.0], "sat": [0.4, 0.9]}[field]}
    spec = dict(oneoff=oneoff, uc=2.0, cap=None, cap_abs=False, sat=None, spend=100.0)
    p = at.Program("P1", "Prog 1", target_pops=["pa"], target_comps=["a"])
    p.spend_data = make_ts(100.0, "$/year")
    p.unit_cost = make_ts(2.0, "$/person (one-off)" if oneoff else "$/person/year")
    if field == "spend":
        p.spend_data = make_ts(series, "$/year")
        spec["spend"] = series
    elif field == "uc":
        p.unit_cost = make_ts(series, "$/person (one-off)" if oneoff else "$/person/year")
        spec["uc"] = series
    elif field == "cap":
        p.capacity_constraint = make_ts(series, "people/year")
        spec["cap"] = series
    elif field == "sat":
        p.saturation = make_ts(series, "N.A.")
        spec["sat"] = series
    ps = one_prog_set(oneoff)
    ps.programs["P1"] = p
    vs = []
    dt = 0.25
    times = [1999.0, 2000.0, 2001.0, 2001.99, 2002.0, 2003.5]
    tv = np.array(times)
    caps = ps.get_capacities(tvec=tv, dt=dt)
    cov = ps.get_prop_coverage(tvec=tv, dt=dt, capacities=caps, num_eligible={"P1": np.full(len(times), 30.0)})
    for i, t in enumerate(times):
        sp = refprog.interp_previous(spec["spend"], t)
        rc = refprog.prog_capacity(spec, sp, t, dt)
        rv = min(refprog.prog_prop_covered(spec, rc, 30.0, t), 1.0)
        if abs(float(caps["P1"][i]) - rc) > 1e-12 * max(1, rc):
            vs.append(V("stepped-series-capacity", f"{field} series {series} oneoff={oneoff} at t={t}: capacity {float(caps['P1'][i])!r}, stepped interpolation gives {rc!r}", None))
        if abs(float(cov["P1"][i]) - rv) > 1e-12:
            vs.append(V("stepped-series-coverage", f"{field} series {series} oneoff={oneoff} at t={t}: coverage {float(cov['P1'][i])!r}, stepped interpolation gives {rv!r}", None))
    return dict(states=0, transitions=0, nontrivial=True, violations=vs[:4], counters=dict(stepped_points=len(times)))


def run_case(case):
    return dict(grid=run_grid, overwrites=run_overwrites, stepped=run_stepped)[case["kind"]](case)
