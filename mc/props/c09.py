"""C09 - interventions have no effect before they start"""

import copy
import itertools
import numpy as np
import atomica as at
from atomica.model import TimedCompartment, TimedLink

from mc import simspace
from mc.oracles import V
from mc.snapshot import snap_hash
from mc.build import World, make_ts
from mc.props import c06

LEVEL = "model_checking"
RULE = (
    "Paired runs on representative models (7-compartment 2-population model with timed compartment, junction, transfer, source, sink and two programs; 2-population model with interaction-weighted aggregation; "
    "function-of-state model) x dt alphabet x intervention kind {program start, budget / capacity / coverage change dated Y with the prior value stated, parameter scenario x {linear, stepped} on "
    "{data parameter, function parameter, junction proportion, source inflow, transfer, interaction}} x EVERY Y on the time grid, off the grid (t_k + 0.4 dt), before the start and after the end; "
    "all stocks, elapsed-time bins, flows, parameters and characteristics at every index with t < Y must be bit-identical to the run without the intervention; stop year: data-driven targeted parameters return to their values; "
    "end-year extension compared to 1e-12. states = (model, intervention, Y) triples x time indices compared."
)
ASSUMPTIONS = [
    "functions in the compared models use + - * / max min only (numpy's vector and scalar paths may differ in the last bit for transcendental functions when programs reclassify a parameter as step-by-step)",
    "timed duration parameters cannot vary in time and are not scenario targets",
    "bounds: the three model families listed, Y alphabet = all grid points + off-grid points + outside the run",
]
CASE_TIMEOUT = 600
S0 = simspace.START


def models(tier):
    dts = simspace.DTS[tier][:3] if tier == "quick" else [1.0, 0.25, 1 / 12, 0.3, 0.5]
    for dt in dts:
        yield "combined", dt
        yield "agg", dt
        yield "state", dt


def build_model(name, dt, continuous=False):
    if name == "combined" and continuous:
        spec = build_model(name, dt)
        spec["progs"]["progs"][0]["oneoff"] = False  # P1 becomes a continuous program (unit cost per person per year)
        spec["progs"]["progs"][0]["uc"] = 40.0
        return spec
    if name.startswith("generic:"):
        return copy.deepcopy(dict(generic_specs())[name[8:]])
    if name == "combined":
        # the overwritten parameters have time-varying data in every population (two data years): a scenario on one population must leave the
        # ramp of the other populations alone
        spec = simspace.combined_spec(dt, v={"t": [S0, S0 + 1.0, S0 + 2.0], "v": [0.3, 0.27, 0.12]}, dur=1.0, tj=0.2, pa=0.3, d=0.01, br=5.0, prog=True)
        spec["progs"]["instr"] = dict(start=S0)
    elif name == "agg":
        spec = next(s for s in simspace.pops("quick") if s["sim"][2] == dt and any(p["name"] == "foi" for p in s["pars"])) if dt in simspace.DTS["quick"] else None
        if spec is None:
            spec = next(s for s in simspace.pops("thorough") if abs(s["sim"][2] - dt) < 1e-12 and any(p["name"] == "foi" for p in s["pars"]))
        spec = copy.deepcopy(spec)
    else:
        spec = c06.model("state", dt, "three", 1.0, 1.0, "both", True, None)
        spec["progs"]["instr"] = dict(start=S0)
    return spec


KINDS = {
    "combined": ["prog_start", "budget", "capacity", "coverage", "budget_scalar_insert", "capacity_scalar_insert", "coverage_scalar_insert", "capacity_continuous", "budget_continuous", "stop", "extend_scen:vr:linear", "extend_scen:vr:previous", "extend_scen:pb:linear"] + [f"scen:{t}:{i}" for t in ("vr", "pb", "pa", "br", "age") for i in ("linear", "previous")] + [f"scen2:{t}:{i}" for t in ("pb", "vr") for i in ("linear", "previous")] + [f"scen_chain:{t}:{i}" for t in ("vr", "pb") for i in ("linear", "previous")] + [f"scen_pchip:{t}:{i}" for t in ("vr", "br") for i in ("linear", "previous")] + ["scenario_object_reuse:budget", "scenario_object_reuse:coverage", "extend"],
    "agg": [f"scen:{t}:{i}" for t in ("mix", "rec") for i in ("linear", "previous")] + [f"scen2:{t}:{i}" for t in ("inf", "foi") for i in ("linear", "previous")] + [f"scen_chain:{t}:{i}" for t in ("inf", "foi") for i in ("linear", "previous")] + ["extend"],
    "state": ["prog_start", "budget", "capacity", "coverage", "budget_scalar_insert", "stop", "extend_scen:p1:linear", "extend_scen:drv:linear"] + [f"scen:{t}:{i}" for t in ("p1", "drv", "p2") for i in ("linear", "previous")] + [f"scen_chain:{t}:{i}" for t in ("p1", "drv") for i in ("linear", "previous")] + ["extend"],
}


def generic_specs():
    """thorough tier: one representative of every timed structure and every junction gadget; every data parameter is a scenario target"""
    seen = set()
    for s in simspace.timed("quick"):
        k = ("timed", s["timed"]["struct"])
        if k not in seen and s["timed"]["D"] == "3dt" and s["timed"]["extra"] == 0.3 and s["timed"]["ainit"] == 60.0 and s["sim"][2] == 0.25:
            seen.add(k)
            yield "timed_" + s["timed"]["struct"], s
    for s in simspace.junctions("quick"):
        g = s["gadget"]
        k = ("junc", g["name"])
        if k not in seen and g["ok"] and g["psrc"] == "const" and g["jinit"] == 50.0 and all(p == 0.5 for p in g["props"]) and s["sim"][2] == 0.25:
            seen.add(k)
            yield "junction_" + g["name"], s


def cases(tier):
    for name, dt in models(tier):
        for kind in KINDS[name]:
            yield dict(model=name, dt=dt, kind=kind)
    if tier == "thorough":
        for name, spec in generic_specs():
            for p in spec["pars"]:
                if p.get("val") is not None and not p.get("timed"):
                    for interp in ("linear", "previous"):
                        yield dict(model="generic:" + name, dt=spec["sim"][2], kind=f"scen:{p['name']}:{interp}")
            yield dict(model="generic:" + name, dt=spec["sim"][2], kind="extend")


def arrays(r):
    out = {}
    for pop in r.model.pops:
        for c in pop.comps:
            out[("comp", pop.name, c.name)] = np.asarray(c.vals)
            if isinstance(c, TimedCompartment):
                out[("bins", pop.name, c.name)] = c._vals.T
        for l in pop.links:
            k = ("link", pop.name, l.source.name, l.dest.pop.name, l.dest.name, l.parameter.name if l.parameter is not None else "-")
            out[k] = np.asarray(l.vals)
        for p in pop.pars:
            out[("par", pop.name, p.name)] = np.asarray(p.vals)
        for c in pop.characs:
            out[("charac", pop.name, c.name)] = np.asarray(c.vals)
    return out


def compare_before(a, b, t, Y, label, exact=True, kinds=None):
    idx = np.where(t < Y)[0]
    n = len(idx)
    for k, va in a.items():
        if kinds and k[0] not in kinds:
            continue
        vb = b.get(k)
        if vb is None:
            return [V("output-missing", f"{label}: {k} missing in the run with the intervention", None)], n
        x, y = va[:n], vb[:n]
        same = (x == y) | (np.isnan(x) & np.isnan(y)) if exact else np.isclose(x, y, rtol=1e-12, atol=1e-300, equal_nan=True)
        if not np.all(same):
            bad = ~same
            i = int(np.argmax(bad.reshape(bad.shape[0], -1).any(axis=1)))
            return [V("effect-before-start", f"{label}: {k} differs at index {i} (t={t[i]!r} < Y={Y!r}): {np.asarray(x[i]).tolist()!r} vs {np.asarray(y[i]).tolist()!r}", dict(key=list(map(str, k)), index=i, Y=Y))], n
    return [], n


def differs(a, b):
    """the intervention has some effect at all (non-vacuity counter)"""
    for k, va in a.items():
        vb = b.get(k)
        if vb is not None and va.shape == vb.shape and not np.array_equal(va, vb, equal_nan=True):
            return 1
    return 0


def ys(t, dt):
    out = [t[0] - 1.0]
    for tk in t:
        out.append(float(tk))
        out.append(float(tk + 0.4 * dt))
    out.append(t[-1] + 1.0)
    return out


def run_case(case):
    name, dt, kind = case["model"], case["dt"], case["kind"]
    spec = build_model(name, dt, continuous=kind.endswith("_continuous"))
    kind = kind.replace("_continuous", "")
    w = World(spec)
    t = w.P.settings.tvec
    vs = []
    states = trans = eff = 0
    lab0 = f"{name} dt={dt!r} {kind}"
    progs0 = {p["name"]: p for p in (spec.get("progs") or {}).get("progs", [])}

    def instr(**kw):
        return at.ProgramInstructions(**kw)

    if kind.startswith("scen_pchip:"):
        # the parameter set uses another fallback interpolation for its data (what migrated legacy projects carry)
        for par in w.parset.all_pars():
            par._interpolation_method = "pchip"
        kind = "scen:" + kind.split(":", 1)[1]
    if kind.startswith("scenario_object_reuse:"):
        # a Budget / Coverage scenario OBJECT is run, its start year is moved, and it is run again: programs are inactive before the current start year
        which = kind.split(":")[1]
        first = sorted(progs0)[0]
        s0 = progs0[first]["spend"]
        base = w.run(progs=False)
        a = arrays(base)
        if which == "budget":
            scen = at.BudgetScenario(name="b", alloc={first: 5 * s0}, start_year=float(t[0]))
        else:
            scen = at.CoverageScenario(name="c", coverage={first: 0.7}, start_year=float(t[0]))
        for Y in ys(t, dt):
            scen.start_year = Y
            r2 = scen.run(w.P, w.parset, w.progset, store_results=False)
            b2 = arrays(r2)
            v, n = compare_before(a, b2, t, Y, f"{lab0} scenario object re-used with start year Y={Y!r}")
            eff += differs(a, b2)
            vs += v
            states += n
            trans += 1
            if len(vs) >= 3:
                break
        return dict(states=states, transitions=trans, nontrivial=eff > 0, violations=vs[:3], counters=dict(pairs=trans, pairs_with_effect=eff))

    if kind == "extend":
        base = w.run(progs=bool(w.progset))
        w2 = World(dict(spec, sim=[spec["sim"][0], spec["sim"][1] + 1.0, dt]))
        ext = w2.run(progs=bool(w2.progset))
        a, b = arrays(base), arrays(ext)
        nT = len(base.model.t)
        if not np.allclose(ext.model.t[:nT], base.model.t, rtol=0, atol=1e-9):
            vs.append(V("extension-changes-grid", f"{lab0}: time grid of the extended run differs", None))
        for k, va in a.items():
            vb = b[k]
            nn = nT - 1 if k[0] == "link" else nT  # the last flow of the shorter run is never applied, but it is still computed from the same state
            if not np.allclose(va[:nT], vb[:nT], rtol=1e-12, atol=1e-300, equal_nan=True):
                vs.append(V("extension-changes-earlier-output", f"{lab0}: {k} differs before the original end year", None))
                break
        return dict(states=nT, transitions=nT - 1, nontrivial=True, violations=vs, counters=dict(pairs=1))

    if kind.startswith("extend_scen:"):
        _, target, interp = kind.split(":")
        pop = w.parset.pop_names[0]
        v1, v2 = dict(vr=(0.8, 0.1), pb=(0.9, 0.2), p1=(0.9, 0.05), drv=(0.6, 0.01))[target]
        t_end = float(t[-1])
        for Y in (float(t[1]), float(t[len(t) // 2]), float(t[len(t) // 2] + 0.4 * dt)):
            for beyond in (t_end + 0.5, t_end + 3.0):
                def run(end):
                    w2 = World(dict(spec, sim=[spec["sim"][0], end, dt]))
                    sc_ = at.ParameterScenario(name="s", interpolation=interp)
                    sc_.add(target, pop, [Y, beyond], [v1, v2])  # the second point lies beyond the (shorter) end year
                    return w2.P.run_sim(sc_.get_parset(w2.parset, w2.P), store_results=False)
                base, ext = run(spec["sim"][1]), run(spec["sim"][1] + 4.0)
                a, b = arrays(base), arrays(ext)
                nT = len(base.model.t)
                trans += 1
                states += nT
                for k, va in a.items():
                    if not np.allclose(va[:nT], b[k][:nT], rtol=1e-12, atol=1e-300, equal_nan=True):
                        i = int(np.argmax(~np.isclose(va[:nT], b[k][:nT], rtol=1e-12, atol=1e-300, equal_nan=True).reshape(nT, -1).all(axis=1)))
                        vs.append(V("extension-changes-earlier-output", f"{lab0}: scenario on {target} from {Y!r} ramping to {beyond!r}: {k} at t={base.model.t[i]!r} differs between end years {spec['sim'][1]} and {spec['sim'][1] + 4.0}", None))
                        break
                if vs:
                    break
            if vs:
                break
        return dict(states=states, transitions=trans, nontrivial=True, violations=vs[:3], counters=dict(pairs=trans))

    if kind.startswith("scen_chain:"):
        # a scenario on the SAME parameter and population is already in force from an earlier year (the paired baseline contains it); the intervention
        # is a second scenario applied on top of it from Y: nothing may change before Y (in particular the first scenario stays in force on [YA, Y))
        _, target, interp = kind.split(":")
        pop = w.parset.pop_names[0]
        v1, v2 = dict(pb=(0.9, 0.2), vr=(0.8, 0.1), inf=(0.7, 0.05), foi=(0.6, 0.1), drv=(0.6, 0.01), p1=(0.9, 0.05))[target]
        YA = float(t[1])
        sa = at.ParameterScenario(name="sa", interpolation=interp)
        sa.add(target, pop, [YA, float(t[-1]) + 1.0], [v1, v2])
        psA = sa.get_parset(w.parset, w.P)
        base = w.P.run_sim(psA, store_results=False)
        a = arrays(base)
        for Y in ys(t, dt):
            if Y <= YA:
                continue
            sb = at.ParameterScenario(name="sb", interpolation=interp)
            sb.add(target, pop, [Y, Y + 1.0], [v2, v1])
            r2 = w.P.run_sim(sb.get_parset(psA, w.P), store_results=False)
            b2 = arrays(r2)
            v, n = compare_before(a, b2, t, Y, f"{lab0} first scenario from {YA!r}, second from Y={Y!r}", exact=False)
            eff += differs(a, b2)
            vs += v
            states += n
            trans += 1
            if len(vs) >= 3:
                break
        return dict(states=states, transitions=trans, nontrivial=eff > 0, violations=vs[:3], counters=dict(pairs=trans, pairs_with_effect=eff))

    if kind.startswith("scen2:"):
        # the same parameter is overwritten in two populations with different first years: the intervention is the SECOND population's overwrite,
        # the paired baseline already contains the first population's (earlier) overwrite
        _, target, interp = kind.split(":")
        popA, popB = w.parset.pop_names[:2]
        v1, v2 = dict(pb=(0.9, 0.2), vr=(0.8, 0.1), inf=(0.7, 0.05), foi=(0.6, 0.1))[target]
        YA = float(t[1])
        sa = at.ParameterScenario(name="sa", interpolation=interp)
        sa.add(target, popA, [YA, YA + 1.0], [v1, v2])
        base = w.P.run_sim(sa.get_parset(w.parset, w.P), store_results=False)
        a = arrays(base)
        for Y in ys(t, dt):
            sb = at.ParameterScenario(name="sb", interpolation=interp)
            sb.add(target, popA, [YA, YA + 1.0], [v1, v2])
            sb.add(target, popB, [Y, Y + 1.0], [v2, v1])
            r2 = w.P.run_sim(sb.get_parset(w.parset, w.P), store_results=False)
            b2 = arrays(r2)
            v, n = compare_before(a, b2, t, Y, f"{lab0} (population {popA} overwritten from {YA!r}) Y={Y!r}")
            eff += differs(a, b2)
            vs += v
            states += n
            trans += 1
            if len(vs) >= 3:
                break
        return dict(states=states, transitions=trans, nontrivial=eff > 0, violations=vs[:3], counters=dict(pairs=trans, pairs_with_effect=eff))

    if kind.startswith("scen:"):
        _, target, interp = kind.split(":")
        base = w.run(progs=False)
        a = arrays(base)
        h_parset = snap_hash(w.parset)
        for Y in ys(t, dt):
            scen = at.ParameterScenario(name="s", interpolation=interp)
            if target == "age":
                scen.add("age", ("pa1", "pb1"), [Y, Y + 1.0], [0.5, 0.05])
            elif target == "mix":
                scen.add("mix", ("pa", "pb"), [Y, Y + 1.0], [3.0, 0.1])
            else:
                pop = w.parset.pop_names[0]
                if name.startswith("generic:"):
                    base_v = next(p["val"] for p in spec["pars"] if p["name"] == target)
                    base_v = base_v if isinstance(base_v, (int, float)) else 0.5
                    scen.add(target, pop, [Y, Y + 1.0], [base_v * 2 + 0.1, base_v * 0.5])
                    ps2 = scen.get_parset(w.parset, w.P)
                    r2 = w.P.run_sim(ps2, store_results=False)
                    b2 = arrays(r2)
                    v, n = compare_before(a, b2, t, Y, f"{lab0} Y={Y!r}")
                    eff += differs(a, b2)
                    vs += v
                    states += n
                    trans += 1
                    if len(vs) >= 3:
                        break
                    continue
                v1, v2 = dict(vr=(0.8, 0.1), pb=(0.9, 0.2), pa=(0.9, 0.1), br=(50.0, 1.0), rec=(0.9, 0.05), p1=(0.9, 0.05), drv=(0.6, 0.01), p2=(0.2, 0.3))[target]
                scen.add(target, pop, [Y, Y + 1.0], [v1, v2])
            ps2 = scen.get_parset(w.parset, w.P)
            if snap_hash(w.parset) != h_parset:
                vs.append(V("scenario-modified-callers-parset", f"{lab0} Y={Y!r}: building the scenario's parameter set changed the parameter set it was built from (the baseline of every later comparison)", None))
                break
            r2 = w.P.run_sim(ps2, store_results=False)
            b2 = arrays(r2)
            v, n = compare_before(a, b2, t, Y, f"{lab0} Y={Y!r}")
            eff += differs(a, b2)
            vs += v
            states += n
            trans += 1
            if len(vs) >= 3:
                break
        return dict(states=states, transitions=trans, nontrivial=eff > 0, violations=vs[:3], counters=dict(pairs=trans, pairs_with_effect=eff))

    # program interventions
    for Y in ys(t, dt):
        if kind == "prog_start":
            base = w.run(progs=False)
            r2 = w.P.run_sim(w.parset, w.progset, instr(start_year=Y), store_results=False)
        elif kind == "stop":
            if Y < t[0] or Y > t[-1]:
                continue
            base = w.run(progs=False)
            r2 = w.P.run_sim(w.parset, w.progset, instr(start_year=t[0], stop_year=Y), store_results=False)
            # after the stop year, data-driven targeted parameters take their non-program values again
            a, b = arrays(base), arrays(r2)
            after = np.where(t > Y)[0]
            tgt = "vr" if name == "combined" else None
            if tgt:
                for pop in base.model.pops:
                    x, y = a[("par", pop.name, tgt)][after], b[("par", pop.name, tgt)][after]
                    if not np.array_equal(x, y):
                        i = int(after[np.argmax(x != y)])
                        vs.append(V("effect-after-stop", f"{lab0} stop={Y!r}: {tgt} in {pop.name} at t={t[i]!r} is {b[('par', pop.name, tgt)][i]!r}, without programs {a[('par', pop.name, tgt)][i]!r}", None))
            states += len(after)
            trans += 1
            continue
        else:
            first = sorted(progs0)[0]
            s0 = progs0[first]["spend"]
            if kind == "budget":
                b0 = instr(start_year=t[0], alloc={first: at.TimeSeries([t[0] - 2], [s0])})
                b1 = instr(start_year=t[0], alloc={first: at.TimeSeries([t[0] - 2, Y], [s0, 5 * s0])})
            elif kind in ("budget_scalar_insert", "capacity_scalar_insert", "coverage_scalar_insert"):
                # the overwrite is given as a plain number (in force from the start year) and the later change is inserted into the instructions afterwards
                if Y <= t[0]:
                    continue
                which, v0, v1 = dict(budget=("alloc", s0, 5 * s0), capacity=("capacity", 40.0, 400.0), coverage=("coverage", 0.2, 0.9))[kind.split("_")[0]]
                b0 = instr(start_year=t[0], **{which: {first: v0}})
                b1 = instr(start_year=t[0], **{which: {first: v0}})
                getattr(b1, which)[first].insert(Y, v1)
            elif kind == "capacity":
                b0 = instr(start_year=t[0], capacity={first: at.TimeSeries([t[0] - 2], [40.0])})
                b1 = instr(start_year=t[0], capacity={first: at.TimeSeries([t[0] - 2, Y], [40.0, 400.0])})
            elif kind == "coverage":
                b0 = instr(start_year=t[0], coverage={first: at.TimeSeries([t[0] - 2], [0.2])})
                b1 = instr(start_year=t[0], coverage={first: at.TimeSeries([t[0] - 2, Y], [0.2, 0.9])})
            base = w.P.run_sim(w.parset, w.progset, b0, store_results=False)
            r2 = w.P.run_sim(w.parset, w.progset, b1, store_results=False)
        a2, b2 = arrays(base), arrays(r2)
        v, n = compare_before(a2, b2, t, Y, f"{lab0} Y={Y!r}")
        eff += differs(a2, b2)
        vs += v
        states += n
        trans += 1
        if len(vs) >= 3:
            break
    return dict(states=states, transitions=trans, nontrivial=eff > 0 or kind == "stop", violations=vs[:3], counters=dict(pairs=trans, pairs_with_effect=eff))
