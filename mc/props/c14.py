"""C14 - constrained allocations meet the total and every bound, or are rejected"""

import itertools
import math
import numpy as np
import sciris as sc
import atomica as at
from atomica.optimization import constrain_sum_bounded, FailedConstraint, UnresolvableConstraint, InvalidInitialConditions

from mc.oracles import V

at.logger.setLevel(50)

LEVEL = "exploration"
RULE = (
    "(a) constrain_sum_bounded on the full grid x_i in {0,1,3,10}, s in {0,1,5,14,100}, lb_i in {0,1,2}, ub_i in {lb_i,5,inf} for n = 1..3 (quick) / 1..4 (thorough; n = 5..10 on the reduced alphabet {0,1}); "
    "(b) TotalSpendConstraint through a real Optimization (get_initialization -> get_hard_constraints -> update_instructions -> constrain_instructions) with 2-3 programs, 1-2 constrained years, budget factors {0.5,1,2}, "
    "absolute and relative bounds, plain / paired / package adjustments, and every proposal vector over {lower, 0.5*x0, x0, upper-or-3*x0}; (c) SpendingPackageAdjustment proportions and totals. "
    "Non-trivial = a call in which the proposal did NOT already satisfy the constraints and a vector was returned."
)
ASSUMPTIONS = [
    "the claim is over continuous inputs; only the listed grids are decided",
    "'signals' = FailedConstraint, UnresolvableConstraint, InvalidInitialConditions or a loud AssertionError naming the failed total (counted separately); any other exception is a violation",
    "bounds are compared with 1e-9 slack, totals to 1e-6 * max(1, total) as stated in the property",
]
CASE_TIMEOUT = 600

XS = [0.0, 1.0, 3.0, 10.0]
SS = [0.0, 1.0, 5.0, 14.0, 100.0]
LBS = [0.0, 1.0, 2.0]


def cases(tier):
    nmax = 3 if tier == "quick" else 4
    for n in range(1, nmax + 1):
        for s in SS:
            for x in itertools.product(XS, repeat=n):
                yield dict(kind="csb", n=n, s=s, x=list(x))
    if tier == "quick":
        # a slice of the n = 4 space (the full n = 4 product is in the thorough tier)
        for x in ([0.0, 1.0, 3.0, 1.0], [1.0, 1.0, 1.0, 1.0], [10.0, 0.0, 3.0, 1.0], [0.0, 0.0, 0.0, 1.0]):
            for s in (1.0, 5.0):
                yield dict(kind="csb", n=4, s=s, x=x)
    if tier == "thorough":
        for n in range(5, 11):
            for s in (0.0, 1.0, 5.0, float(n)):
                for k in range(n + 1):
                    yield dict(kind="csb_reduced", n=n, s=s, ones=k)
    years = [[2020.0], [2020.0, 2022.0]]
    for nprog in (2, 3):
        for yrs in years:
            for bf in (0.5, 1.0, 2.0):
                for ltype in ("abs", "rel"):
                    for lo, hi in itertools.product([0, 1], [0, 1]):
                        for mix in ("plain", "paired", "package", "package_fixed"):
                            for p3 in (0.0, 30.0):
                                if mix == "paired" and len(yrs) < 2:
                                    continue
                                yield dict(kind="tsc", nprog=nprog, years=yrs, bf=bf, ltype=ltype, lo=lo, hi=hi, mix=mix, p3=p3)
                                if mix == "plain" and len(yrs) == 2:
                                    # the constraint names its years itself (ascending / descending) with year-specific budget factors or explicit totals;
                                    # "reuse": the same Optimization object is used for a second, different starting allocation
                                    for tv in ("asc_bf", "desc_bf", "desc_total", "asc_total_zero"):
                                        yield dict(kind="tsc", nprog=nprog, years=yrs, bf=bf, ltype=ltype, lo=lo, hi=hi, mix=mix, p3=p3, tsc_t=tv)
                                if mix == "paired" and nprog == 3 and p3 > 0:
                                    # a pair plus TWO plain programs constrained in the same year (one of them can sit on a bound while the other moves)
                                    yield dict(kind="tsc", nprog=4, years=yrs, bf=bf, ltype=ltype, lo=lo, hi=hi, mix=mix, p3=p3)
                                if mix == "plain" and ltype == "abs":
                                    yield dict(kind="tsc", nprog=nprog, years=yrs, bf=bf, ltype=ltype, lo=lo, hi=hi, mix=mix, p3=p3, solver_fault=True)
                                if mix in ("plain", "paired") and ((lo == 0 and hi == 0) or (ltype == "rel" and mix == "plain")):
                                    yield dict(kind="tsc", nprog=nprog, years=yrs, bf=bf, ltype=ltype, lo=lo, hi=hi, mix=mix, p3=p3, reuse=True)
    for minp, maxp in itertools.product([None, [0.2, 0.1, 0.0], [0.5, 0.5, 0.0]], [None, [0.6, 0.6, 0.6], [1.0, 0.3, 0.7]]):
        for tot in (None, (50.0, 400.0)):
            for spends in ([100.0, 50.0, 30.0], [0.0, 0.0, 0.0], [90.0, 90.0, 0.0]):
                yield dict(kind="package", minp=minp, maxp=maxp, tot=tot, spends=spends)
    for tot in (None, (50.0, 400.0)):
        for spends in ([100.0, 50.0, 30.0], [90.0, 90.0, 0.0], [7.0, 1.0, 2.0]):
            yield dict(kind="package", minp=None, maxp=None, tot=tot, spends=spends, fix_props=True)


def check_vector(v, x, s, lb, ub, label):
    vs = []
    v = np.asarray(v, dtype=float)
    feasible = lb.sum() <= s + 1e-12 and ub.sum() >= s - 1e-12
    satisfied = abs(x.sum() - s) <= 1e-12 * max(1, s) and np.all(x >= lb) and np.all(x <= ub)
    if not np.all(np.isfinite(v)):
        vs.append(V("returned-nonfinite", f"{label}: returned {v.tolist()}", None))
        return vs, satisfied
    if abs(v.sum() - s) > 1e-6 * max(1.0, s):
        vs.append(V("total-violated", f"{label}: returned {v.tolist()} sums to {v.sum()!r}, required {s!r}" + ("" if feasible else " (infeasible problem)"), None))
    if np.any(v < lb - 1e-9 * np.maximum(1, np.abs(lb))) or np.any(v > ub + 1e-9 * np.maximum(1, np.abs(np.where(np.isfinite(ub), ub, 0)))):
        vs.append(V("bound-violated", f"{label}: returned {v.tolist()} outside [{lb.tolist()}, {ub.tolist()}]" + ("" if feasible else " (infeasible problem)"), None))
    if satisfied and not np.allclose(v, x, rtol=1e-9, atol=1e-12):
        vs.append(V("changed-a-satisfying-allocation", f"{label}: proposal already satisfies the constraints but {x.tolist()} was changed to {v.tolist()}", None))
    return vs, satisfied


def call_csb(x, s, lb, ub, label, counters):
    """returns violations"""
    x0 = x.copy()
    satisfied = abs(x.sum() - s) <= 1e-12 * max(1, s) and np.all(x >= lb) and np.all(x <= ub)
    try:
        v = constrain_sum_bounded(x, s, lb, ub)
    except FailedConstraint:
        counters["signalled_failed_constraint"] = counters.get("signalled_failed_constraint", 0) + 1
        if satisfied:
            return [V("rejected-a-satisfying-allocation", f"{label}: proposal already satisfies the constraints but was rejected (FailedConstraint)", None)]
        return []
    except AssertionError as e:
        counters["signalled_assertion"] = counters.get("signalled_assertion", 0) + 1
        if satisfied:
            return [V("rejected-a-satisfying-allocation", f"{label}: proposal already satisfies the constraints but raised AssertionError({str(e)[:80]})", None)]
        return []
    counters["returned"] = counters.get("returned", 0) + 1
    if not np.array_equal(x, x0):
        return [V("proposal-modified-in-place", f"{label}: the proposal array was modified in place", None)]
    vs, sat = check_vector(v, x, s, lb, ub, label)
    if not sat:
        counters["returned_nontrivial"] = counters.get("returned_nontrivial", 0) + 1
    return vs


def run_csb(case):
    n, s = case["n"], case["s"]
    x = np.array(case["x"], dtype=float)
    vs = []
    counters = {}
    ncalls = 0
    for lb in itertools.product(LBS, repeat=n):
        ubopts = [[l, 5.0, np.inf] for l in lb]
        for ub in itertools.product(*ubopts):
            lba, uba = np.array(lb), np.array(ub)
            if np.any(uba < lba):
                continue
            ncalls += 1
            with np.errstate(all="ignore"):
                vs += call_csb(x.copy(), s, lba, uba, f"x={x.tolist()} s={s} lb={list(lb)} ub={list(ub)}", counters)
            if len(vs) > 3:
                break
        if len(vs) > 3:
            break
    counters["csb_calls"] = ncalls
    return dict(states=0, transitions=0, nontrivial=counters.get("returned_nontrivial", 0) > 0, violations=vs[:4], counters=counters)


def run_csb_reduced(case):
    n, s, k = case["n"], case["s"], case["ones"]
    counters = {}
    vs = []
    x = np.array([1.0] * k + [0.0] * (n - k))
    for lbk in range(n + 1):
        for ubmode in ("inf", "one", "lb"):
            lb = np.array([1.0] * lbk + [0.0] * (n - lbk))[::-1].copy()
            ub = np.full(n, np.inf) if ubmode == "inf" else (np.maximum(lb, 1.0) if ubmode == "one" else lb.copy())
            with np.errstate(all="ignore"):
                vs += call_csb(x.copy(), s, lb, ub, f"n={n} x={x.tolist()} s={s} lb={lb.tolist()} ub={ub.tolist()}", counters)
    counters["csb_calls"] = 3 * (n + 1)
    return dict(states=0, transitions=0, nontrivial=counters.get("returned_nontrivial", 0) > 0, violations=vs[:4], counters=counters)


# ------------------------------------------------------------------ (b) TotalSpendConstraint through a real Optimization

_W = {}


def world():
    from mc import simspace
    from mc.build import World

    if "w" not in _W:
        spec = simspace.base_spec(["a", "b"], 0.25)
        simspace.add_edge(spec, "a", "b", ("probability", None, 0.3), name="mv")
        spec["pars"][0]["targ"] = True
        spec["sim"] = [2018.0, 2024.0, 0.25]
        spec["years"] = [2018.0]
        spec["progs"] = dict(
            progs=[dict(name=f"P{i}", pops=["pa"], comps=["a"], spend=s, uc=2.0, oneoff=True) for i, s in ((1, 100.0), (2, 50.0), (3, 30.0), (4, 50.0))],
            covouts=[dict(par="mv", pop="pa", base=0.1, progs={"P1": 0.5, "P2": 0.4, "P3": 0.3, "P4": 0.2})],
            instr=dict(start=2019.0),
            years=[2018.0],
        )
        _W["w"] = World(spec)
    return _W["w"]


def run_tsc(case):
    if not case.get("reuse"):
        return _run_tsc(case, None, 1.0)
    # one Optimization object, two different starting allocations in a row: the second pass must behave like a fresh object would
    holder = {}
    first = _run_tsc(case, holder, 1.0)
    second = _run_tsc(case, holder, 3.0)
    for v in second["violations"]:
        v["key"] = "reused-optimization:" + v["key"]
        v["what"] = "second use of the same Optimization object (starting allocation x3): " + v["what"]
    second["violations"] = first["violations"] + second["violations"]
    second["nontrivial"] = first["nontrivial"] or second["nontrivial"]
    return second


def _run_tsc(case, holder, scale):
    w = world()
    names = ["P1", "P2", "P3", "P4"][: case["nprog"]]
    init = dict(P1=100.0 * scale, P2=50.0 * scale, P3=case["p3"] * scale, P4=50.0 * scale)
    yrs = case["years"]
    ltype = case["ltype"]
    lower = (0.0 if not case["lo"] else (20.0 if ltype == "abs" else 0.5))
    upper = (np.inf if not case["hi"] else (120.0 if ltype == "abs" else 1.5))
    # spending differs between the constrained years (relative bounds and totals are year specific); a parametric paired adjustment requires a value in its first year
    yfac = {y: (1.0 if i == 0 else 1.6) for i, y in enumerate(yrs)}
    alloc = {p: at.TimeSeries(t=[2019.0] + list(yrs), vals=[init[p]] + [init[p] * yfac[y] for y in yrs]) for p in names}
    ins = at.ProgramInstructions(start_year=2019.0, alloc=alloc)
    adjs = []
    mix = case["mix"]
    plain = list(names)
    if mix == "paired":
        adjs.append(at.PairedLinearSpendingAdjustment(names[:2], yrs))
        plain = names[2:]
    elif mix in ("package", "package_fixed"):
        pk = names[:2]
        adjs.append(at.optimization.SpendingPackageAdjustment("pkg", yrs[0], pk, np.array([init[p] for p in pk]), min_props=[0.2, 0.1], max_props=[0.9, 0.8], min_total_spend=50.0, max_total_spend=400.0, fix_props=(mix == "package_fixed")))
        plain = names[2:]
    # bounds differ between the years of a multi-year adjustment
    lower_y = {y: (lower if i == 0 else lower * 0.5) for i, y in enumerate(yrs)}
    upper_y = {y: (upper if i == 0 or not np.isfinite(upper) else upper * 1.5) for i, y in enumerate(yrs)}
    for p in plain:
        adjs.append(at.SpendingAdjustment(p, yrs, ltype, [lower_y[y] for y in yrs], [upper_y[y] for y in yrs]))
    # budget factor / explicit total per constrained year, as the constraint is told (bf_y is the oracle's table, keyed by year)
    tv = case.get("tsc_t")
    bf_y = {y: case["bf"] * (1.0 if (i == 0 or not tv) else 1.25) for i, y in enumerate(yrs)}
    if tv == "asc_total_zero":
        bf_y[yrs[-1]] = 0.0  # an explicit total of exactly 0 in the last constrained year: everything is to be switched off
    if not tv:
        tsc = at.TotalSpendConstraint(budget_factor=case["bf"])
    else:
        order = list(yrs) if tv.startswith("asc") else list(reversed(yrs))
        if tv.endswith("_bf"):
            tsc = at.TotalSpendConstraint(t=order, budget_factor=[bf_y[y] for y in order])
        else:
            tsc = at.TotalSpendConstraint(t=order, total_spend=[sum(init[p] * yfac[y] for p in names) * bf_y[y] for y in order])
    if holder is not None and "opt" in holder:
        opt = holder["opt"]
    else:
        opt = at.Optimization(adjustments=adjs, measurables=[at.MaximizeMeasurable("b", [2020, 2024])], constraints=[tsc], maxiters=1, maxtime=1e9)
        if holder is not None:
            holder["opt"] = opt
    vs = []
    counters = {}
    lab = f"{case}"
    try:
        x0, xmin, xmax = opt.get_initialization(w.progset, ins)
    except InvalidInitialConditions:
        return dict(states=0, transitions=0, nontrivial=False, violations=[], counters=dict(tsc_invalid_initial=1))
    # expected bounds / totals / feasibility per constrained year, from the spec (never from the library's own tables)
    def bounds_year(p, t):
        x = init[p] * yfac[t]
        lo_t, hi_t = lower_y[t], upper_y[t]
        return (lo_t if ltype == "abs" else lo_t * x), (hi_t if (ltype == "abs" or not np.isfinite(hi_t)) else hi_t * x)

    def feasible_year(t):
        tot = sum(init[p] * yfac[t] for p in names) * bf_y[t]
        return sum(bounds_year(p, t)[0] for p in names) <= tot <= sum(bounds_year(p, t)[1] for p in names)
    try:
        hard = opt.get_hard_constraints(x0, ins)
    except UnresolvableConstraint:
        counters["tsc_unresolvable"] = 1
        # must really be unresolvable: recompute from the spec for the plain mix
        if mix == "plain" and all(feasible_year(t) for t in yrs):
            vs.append(V("resolvable-constraint-rejected", f"{lab}: in every constrained year the total lies within the summed bounds but UnresolvableConstraint was raised", None))
        return dict(states=0, transitions=0, nontrivial=False, violations=vs, counters=counters)
    if mix == "plain" and not all(feasible_year(t) for t in yrs):
        vs.append(V("impossible-constraint-not-reported", f"{lab}: the total lies outside the summed bounds in some constrained year but get_hard_constraints did not raise UnresolvableConstraint", None))
        return dict(states=0, transitions=0, nontrivial=False, violations=vs, counters=counters)
    # proposals
    opts = []
    for a, lo_, hi_ in zip(x0, xmin, xmax):
        c = {a, 0.5 * a if np.isfinite(a) else a}
        c.add(lo_ if np.isfinite(lo_) else -1.0 if a == 0 else -abs(a))
        c.add(hi_ if np.isfinite(hi_) else (3 * a if a > 0 else 25.0))
        if not np.isfinite(hi_) and a == 0:
            c.add(1e6)  # far beyond anything meaningful (a paired ramp of this size moves everything)
        opts.append(sorted(c))
    ncalls = nret = 0
    fault = case.get("solver_fault")
    for prop in itertools.product(*opts):
        i2 = sc.dcp(ins)
        ncalls += 1
        try:
            opt.update_instructions(np.array(prop, dtype=float), i2)
            if fault:
                # environment answer under the explorer's control: the numerical solver reports non-convergence for this proposal.
                # The outcome must be the signal (FailedConstraint) - or an allocation that meets the constraints; never a silent pass-through.
                import scipy.optimize as so

                orig_min = so.minimize

                def failing(*a, **k):
                    res = orig_min(*a, **k)
                    res["success"] = False
                    counters["solver_faults_injected"] = counters.get("solver_faults_injected", 0) + 1
                    return res

                so.minimize = failing
                try:
                    opt.constrain_instructions(i2, hard)
                finally:
                    so.minimize = orig_min
            else:
                opt.constrain_instructions(i2, hard)
        except FailedConstraint:
            counters["signalled_failed_constraint"] = counters.get("signalled_failed_constraint", 0) + 1
            continue
        except AssertionError:
            counters["signalled_assertion"] = counters.get("signalled_assertion", 0) + 1
            continue
        nret += 1
        hc = hard[0]
        for t, tot in hc["initial_total_spend"].items():
            tot = float(np.asarray(tot).ravel()[0])
            got = 0.0
            for prog in hc["programs"][t]:
                if prog in i2.alloc:
                    val = float(i2.alloc[prog].get(t))
                    if val < -1e-9:
                        vs.append(V("negative-spending", f"{lab} proposal={list(prop)}: {prog} in {t} gets {val!r}", None))
                    lo_, hi_ = hc["bounds"][t][prog]
                    if mix == "plain":
                        # bounds recomputed from the spec, not taken from the library's own table
                        lo_, hi_ = bounds_year(prog, t)
                    if val < lo_ - 1e-9 * max(1, abs(lo_)) or val > hi_ + 1e-9 * max(1, abs(hi_) if np.isfinite(hi_) else 1):
                        vs.append(V("program-bound-violated", f"{lab} proposal={list(prop)}: {prog} in {t} gets {val!r}, bounds [{lo_}, {hi_}]", None))
                    got += val
                else:
                    adj = opt.get_adjustment(prog)
                    val = float(adj.get_total_spend(i2))
                    if val < 50.0 - 1e-6 or val > 400.0 + 1e-6:
                        vs.append(V("package-total-violated", f"{lab} proposal={list(prop)}: package total {val!r} outside [50, 400]", None))
                    got += val
            if mix == "plain":
                tot = sum(init[p] * yfac[t] for p in names) * bf_y[t]  # required total recomputed from the spec
            elif mix.startswith("package"):
                # the package (first two programs) is adjusted in the first year only; required total recomputed from the spec, never from the library's table
                members = names if t == yrs[0] else names[2:]
                tot = sum(init[p] * yfac[t] for p in members) * case["bf"]
            if abs(got - tot) > 1e-6 * max(1.0, tot):
                vs.append(V("total-spend-violated", f"{lab} proposal={list(prop)}: spending in {t} sums to {got!r}, required {tot!r}", None))
        if mix.startswith("package"):
            t = yrs[0]
            pk = names[:2]
            tot_pk = sum(float(i2.alloc[p].get(t)) for p in pk)
            if tot_pk > 0:
                for p, lo_, hi_ in zip(pk, [0.2, 0.1], [0.9, 0.8]):
                    sh = float(i2.alloc[p].get(t)) / tot_pk
                    if mix == "package" and (sh < lo_ - 1e-6 or sh > hi_ + 1e-6):
                        vs.append(V("package-share-violated", f"{lab} proposal={list(prop)}: share of {p} is {sh!r}, allowed [{lo_}, {hi_}]", None))
        if len(vs) > 3:
            break
    counters.update(tsc_proposals=ncalls, tsc_returned=nret)
    return dict(states=0, transitions=0, nontrivial=nret > 0, violations=vs[:4], counters=counters)


def run_package(case):
    names = ["P1", "P2", "P3"]
    spends = np.array(case["spends"])
    kw = {}
    if case["tot"]:
        kw = dict(min_total_spend=case["tot"][0], max_total_spend=case["tot"][1])
    counters = {}
    try:
        adj = at.optimization.SpendingPackageAdjustment("pkg", 2020.0, names, spends.copy(), min_props=case["minp"], max_props=case["maxp"], fix_props=bool(case.get("fix_props")), **kw)
    except AssertionError:
        return dict(states=0, transitions=0, nontrivial=False, violations=[], counters=dict(package_rejected_at_construction=1))
    minp = np.array(case["minp"] or [0, 0, 0], dtype=float)
    maxp = np.array(case["maxp"] or [1, 1, 1], dtype=float)
    vs = []
    nadj = len(adj.adjustables)
    fr = [0.0, 0.1, 0.5, 1.0]
    nfr = nadj - (1 if adj.adjust_total_spend else 0)
    totals = [50.0, 180.0, 400.0] if adj.adjust_total_spend else [None]
    n = nret = 0
    for f in itertools.product(fr, repeat=nfr):
        for tot in totals:
            vals = list(f) + ([tot] if tot is not None else [])
            ins = at.ProgramInstructions(start_year=2019.0, alloc={p: at.TimeSeries(t=[2019.0], vals=[s]) for p, s in zip(names, spends)})
            n += 1
            try:
                with np.errstate(all="ignore"):
                    adj.update_instructions(vals, ins)
            except (FailedConstraint, AssertionError):
                counters["signalled"] = counters.get("signalled", 0) + 1
                continue
            nret += 1
            if not np.array_equal(adj.initial_spends, spends):
                vs.append(V("package-initial-spends-modified", f"{case} values={vals}: applying the adjustment changed its stored initial spending {adj.initial_spends.tolist()} (was {spends.tolist()})", None))
                break
            got = np.array([float(ins.alloc[p].get(2020.0)) for p in names])
            T = got.sum()
            exp_T = tot if tot is not None else spends.sum()
            if not np.all(np.isfinite(got)):
                vs.append(V("package-nonfinite", f"{case} values={vals}: spending {got.tolist()}", None))
            elif abs(T - exp_T) > 1e-6 * max(1.0, exp_T):
                vs.append(V("package-total-violated", f"{case} values={vals}: package total {T!r}, expected {exp_T!r}", None))
            elif case.get("fix_props") and T > 0 and spends.sum() > 0 and not np.allclose(got / T, spends / spends.sum(), rtol=1e-9, atol=1e-12):
                vs.append(V("package-fixed-proportions-changed", f"{case} values={vals}: shares {(got / T).tolist()} differ from the initial proportions {(spends / spends.sum()).tolist()}", None))
            elif T > 0:
                sh = got / T
                if np.any(sh < minp - 1e-6) or np.any(sh > maxp + 1e-6):
                    vs.append(V("package-share-violated", f"{case} values={vals}: shares {sh.tolist()} outside [{minp.tolist()}, {maxp.tolist()}]", None))
            if len(vs) > 3:
                break
    counters.update(package_calls=n, package_returned=nret)
    return dict(states=0, transitions=0, nontrivial=nret > 0, violations=vs[:4], counters=counters)


def run_case(case):
    return dict(csb=run_csb, csb_reduced=run_csb_reduced, tsc=run_tsc, package=run_package)[case["kind"]](case)
