"""C02 - stocks and flows stay non-negative, finite, never over-drawn; common scaling factor; negative parameter -> zero flow"""

import itertools
import numpy as np
from atomica.model import BadInitialization, SourceCompartment, SinkCompartment, JunctionCompartment, TimedCompartment, TimedLink

from mc import simspace, oracles
from mc.oracles import V
from mc.build import run_spec

LEVEL = "model_checking"
RULE = (
    "Exhaustive product spaces of mc/simspace.py with the extreme value alphabet (fractions 4 and 10 per step, numbers 100x the stock, empty compartments, 1e6 rates) "
    "plus the negative-function sub-space; every state (time index) of every run is checked for sign/finiteness/over-draw, and every pair of competing outflows for ratio preservation "
    "against fractions recomputed from the result's parameter values. Non-trivial = at least one compartment whose requested fractions sum to > 1 (i.e. a rescale happened) or a negative parameter."
)
ASSUMPTIONS = [
    "bounds of mc/simspace.py (<= 3 core compartments, <= 2 populations, listed value levels and step sizes)",
    "requested fractions are recomputed by the harness from Result parameter values with the documented conversions, independently of the library's link cache",
    "timed compartments: ratio checked per elapsed-time bin between time-preserving links, on totals between ordinary links, and as an inequality between the two kinds",
    "domain restriction inherited from C01 for junction gadgets with an all-zero proportion sum that receive people",
]
CASE_TIMEOUT = 60


def negfn(tier):
    dts = simspace.DTS[tier][:3] if tier == "quick" else simspace.DTS[tier]
    fns = ["0.5-a/100", "b/50-1", "0-0.3", "min(0.2, 1-a/40)", "0.3-(t-2000.4)*0.5"]  # the last one is positive first and negative later in the run
    for dt in dts:
        for fn, fmt, other in itertools.product(fns, ["probability", "rate", "number", "duration"], [None, ("probability", None, 0.3), ("probability", None, 4 / dt)]):
            spec = simspace.base_spec(["a", "b", "c"], dt)
            spec["pars"].append(dict(name="neg", fmt=fmt, fn=fn))
            spec["links"].append(["a", "b", "neg"])
            spec["pars"].append(dict(name="bk", fmt="rate", val=0.7))
            spec["links"].append(["b", "a", "bk"])
            if other:
                simspace.add_edge(spec, "a", "c", other, name="oth")
            spec["characs"].append(dict(name="alive", comps=["a", "b", "c"]))
            spec["tag"] = "negfn"
            yield spec
        # births (a number parameter on a link out of a source compartment) driven by a function that is or becomes negative: no flow back into the source
        for fn, ts, other in itertools.product(["0-5", "40-a", "400*(2000.4-t)", "b-30", "min(10, 60-a)"], [None, 1 / 12], [None, ("probability", None, 0.3)]):
            spec = simspace.base_spec(["a", "b", "c"], dt)
            spec["comps"].append(dict(name="src", kind="src"))
            spec["pars"].append(dict(name="neg", fmt="number", fn=fn, ts=ts))
            spec["links"].append(["src", "a", "neg"])
            spec["pars"].append(dict(name="bk", fmt="rate", val=0.7))
            spec["links"] += [["a", "b", "bk"], ["b", "c", "bk"]]
            if other:
                simspace.add_edge(spec, "a", "c", other, name="oth")
            spec["characs"].append(dict(name="alive", comps=["a", "b", "c"]))
            spec["tag"] = "negfn"
            yield spec


def zero_by_subtraction(tier):
    """a compartment whose initial size is determined by subtraction of entered quantities and comes out as 0 up to rounding error, or as a
    tiny negative number inside the initialisation tolerance (the library accepts such data and starts the compartment at 0), with a
    number-type / rate-type outflow from that compartment"""
    for dt in (1.0, 0.25):
        for A, X in ((1000.0, 600.0), (0.3, 0.1), (1e6 / 3, 1e5 / 7), (123.456, 23.456), (50.0, 50.0)):
            for off in (0.0, -3e-7, -9e-7, 3e-7):
                for fmt, val in (("number", 20.0), ("rate", 0.5), ("probability", 4 / dt)):
                    spec = simspace.base_spec(["a", "b", "c"], dt)
                    for c in spec["comps"]:
                        c.pop("init", None)
                        if c["name"] == "a":
                            c["init"] = X
                    spec["characs"] += [dict(name="abc", comps=["a", "b", "c"], val=A), dict(name="ab", comps=["a", "b"], val=X + off)]
                    spec["pars"] += [dict(name="out", fmt=fmt, val=val), dict(name="bk", fmt="rate", val=0.2)]
                    spec["links"] += [["b", "c", "out"], ["c", "a", "bk"]]
                    spec["tag"] = "zero_by_subtraction"
                    yield spec


def cases(tier):
    yield from zero_by_subtraction(tier)
    yield from negfn(tier)
    yield from simspace.all_sim(tier)


def requested_fraction(par, ti, dt):
    """Documented conversion of a parameter value to a per-step fraction of each source compartment"""
    v = par.vals[ti]
    if not np.isfinite(v):
        return np.nan
    if v <= 0:
        return 0.0
    T = par.timescale
    if par.units in ("probability", "rate"):
        return v * dt / T
    if par.units == "duration":
        return dt / (v * T)
    if par.units == "number":
        n = sum(float(l.source[ti]) for l in par.links)
        return (v * dt / T) / n if n > 0 else 0.0
    return None


def scaling(r, rtol=1e-9):
    m = r.model
    dt = m.dt
    T = len(m.t)
    out = []
    rescaled = 0
    negative = 0
    for pop in m.pops:
        for par in pop.pars:
            if par.links and par.units != "proportion":
                neg = np.where(par.vals[:-1] < 0)[0]
                for ti in neg[:3]:
                    negative += 1
                    for l in par.links:
                        if l.vals[ti] != 0:
                            out.append(V("negative-parameter-flow", f"{pop.name}/{par.name}={par.vals[ti]!r} at step {ti} but flow {l.source.name}->{l.dest.name} is {l.vals[ti]!r}", None))
        for c in pop.comps:
            if isinstance(c, (SourceCompartment, SinkCompartment, JunctionCompartment)):
                continue
            links = [l for l in c.outlinks if l.parameter is not None]
            if len(links) < 1:
                continue
            timed = isinstance(c, TimedCompartment)
            for ti in range(T - 1):
                fr = [requested_fraction(l.parameter, ti, dt) for l in links]
                if any(f is None or not np.isfinite(f) for f in fr):
                    continue
                tot = sum(fr)
                if tot > 1 + 1e-12:
                    rescaled += 1
                stock = float(c[ti])
                if not timed:
                    # all flows = frac * stock * common factor
                    flows = [float(l.vals[ti]) for l in links]
                    for (fa, xa), (fb, xb) in itertools.combinations(zip(fr, flows), 2):
                        if abs(xa * fb - xb * fa) > rtol * max(abs(xa * fb), abs(xb * fa), 1e-300) and max(xa, xb) > 1e-12:
                            out.append(V("ratio-not-preserved", f"{pop.name}/{c.name} step {ti}: flows {xa!r},{xb!r} vs requested fractions {fa!r},{fb!r}", dict(pop=pop.name, comp=c.name, index=ti)))
                            break
                    # a positive request on a non-empty compartment must give a positive flow; zero request zero flow
                    for f, x in zip(fr, flows):
                        if f == 0 and x != 0:
                            out.append(V("flow-without-request", f"{pop.name}/{c.name} step {ti}: flow {x!r} for requested fraction 0", None))
                else:
                    tl = [(f, l) for f, l in zip(fr, links) if isinstance(l, TimedLink)]
                    ol = [(f, l) for f, l in zip(fr, links) if not isinstance(l, TimedLink)]
                    for (fa, la), (fb, lb) in itertools.combinations(ol, 2):
                        xa, xb = float(la.vals[ti]), float(lb.vals[ti])
                        if abs(xa * fb - xb * fa) > rtol * max(abs(xa * fb), abs(xb * fa), 1e-300) and max(xa, xb) > 1e-12:
                            out.append(V("ratio-not-preserved", f"timed {pop.name}/{c.name} step {ti}: flows {xa!r},{xb!r} vs fractions {fa!r},{fb!r}", None))
                    for (fa, la), (fb, lb) in itertools.combinations(tl, 2):
                        xa, xb = la._vals[:, ti], lb._vals[:, ti]
                        if not np.allclose(xa * fb, xb * fa, rtol=rtol, atol=1e-300):
                            out.append(V("ratio-not-preserved-bin", f"timed {pop.name}/{c.name} step {ti}: per-bin flows not in requested ratio", None))
                    for f, l in tl:
                        if l._vals[0, ti] != 0:
                            out.append(V("timedlink-final-bin", f"timed {pop.name}/{c.name} step {ti}: time-preserving move leaves from the final bin", None))
                    for (fa, la), (fb, lb) in itertools.product(ol, tl):
                        if fa > 0 and fb > 0:
                            xa = float(la.vals[ti]) / fa
                            xb = float(lb._vals[1:, ti].sum()) / fb
                            if xb > xa * (1 + 1e-9) + 1e-12:
                                out.append(V("ratio-not-preserved-mixed", f"timed {pop.name}/{c.name} step {ti}: time-preserving link scaled less than ordinary link", None))
                if len(out) > 5:
                    return out, rescaled, negative
    return out, rescaled, negative


def run_case(spec):
    g = spec.get("gadget")
    if g is not None and not g["ok"]:
        return dict(states=0, transitions=0, nontrivial=False, violations=[], counters=dict(out_of_domain=1))
    try:
        w, r = run_spec(spec)
    except BadInitialization:
        if spec.get("tag") != "zero_by_subtraction":
            raise
        return dict(states=0, transitions=0, nontrivial=False, violations=[], counters=dict(initialisation_refused=1))
    T = len(r.model.t)
    vs = oracles.sane(r)
    sv, rescaled, negative = scaling(r)
    return dict(states=T, transitions=T - 1, nontrivial=(rescaled + negative) > 0, violations=vs + sv, counters={"tag_" + spec.get("tag", "?"): 1, "rescaled_states": rescaled, "negative_par_states": negative})
