"""C20 - reported aggregates depend only on what was asked for, and add up"""

import itertools
import pickle
import os
import shutil
import tempfile
import numpy as np
import sciris as sc
import atomica as at

from mc.oracles import V
from mc.build import World
from mc.snapshot import snap_hash

LEVEL = "model_checking"
RULE = (
    "On the result of a generated 2-population model (number, probability, rate-with-timescale, fraction and flow outputs, a named aggregation of number outputs, a named aggregation of probability outputs, a formula): "
    "EVERY ordered selection of 1..3 (quick) / 1..4 (thorough) outputs x population argument {each pop, list, 'total', named aggregation} x output aggregation {default, sum, average} x population aggregation {default, sum, average, weighted} "
    "x {raw, interpolate(years), time_aggregate(bins) integrate / average}: the series of every (output, population) must equal the series of the singleton call with the same options; sums equal the sum of parts, averages lie between the parts. "
    "Cascades: every nested chain of <= 3 stages over the characteristic lattice (framework-defined, list and dict forms) x population selections x years (ascending and descending): values from results non-increasing along the cascade at every time, "
    "values from data = sum of the databook entries. Purity: explicit-state BFS over sequences <= 3 of {PlotData, plot_series, plot_bars, plot_cascade, get_cascade_vals, export_results, Result.plot, Result.get_variable by name, PlotData of flows} with the result's full snapshot compared after every call."
)
ASSUMPTIONS = [
    "one generated model family (two populations, three compartments) and its databook; outputs alphabet of 8 entries",
    "series compared to rtol 1e-12 (identical code path expected)",
    "plots are rendered with the agg backend and closed; files go to a scratch directory that is removed",
]
CASE_TIMEOUT = 900
S0 = 2000.0


def make_world():
    spec = dict(
        comps=[
            dict(name="a", kind="ord", init={"pa": {"t": [S0, S0 + 1], "v": [100.0, 90.0]}, "pb": {"t": [S0, S0 + 1], "v": [40.0, 45.0]}}),
            dict(name="b", kind="ord", init={"pa": {"t": [S0, S0 + 1], "v": [20.0, 25.0]}, "pb": {"t": [S0, S0 + 1], "v": [5.0, 6.0]}}),
            dict(name="c", kind="ord", init={"pa": {"t": [S0, S0 + 1], "v": [5.0, 7.0]}, "pb": {"t": [S0, S0 + 1], "v": [1.0, 2.0]}}),
        ],
        pars=[
            dict(name="inf", fmt="probability", val={"pa": 0.3, "pb": 0.1}),
            dict(name="pr2", fmt="probability", val={"pa": 0.6, "pb": 0.2}),
            dict(name="rec", fmt="rate", ts=1 / 12, val=0.05),
            dict(name="back", fmt="rate", val=0.2),
        ],
        links=[["a", "b", "inf"], ["b", "c", "rec"], ["c", "a", "back"], ["b", "a", "back"], ["a", "c", "pr2"]],  # "back" drives two transitions
        characs=[
            dict(name="alive", comps=["a", "b", "c"], val={"pa": {"t": [S0, S0 + 1], "v": [125.0, 122.0]}, "pb": {"t": [S0, S0 + 1], "v": [46.0, 53.0]}}),
            dict(name="ab", comps=["a", "b"], val={"pa": {"t": [S0, S0 + 1], "v": [120.0, 115.0]}, "pb": {"t": [S0, S0 + 1], "v": [45.0, 51.0]}}),
            dict(name="bc", comps=["b", "c"]),
            dict(name="prev", comps=["b"], denom="alive"),
        ],
        pops=["pa", "pb"],
        transfers=[dict(name="mig", units="rate", pairs={"pa>pb": 0.05})],
        sim=[S0, S0 + 3, 0.25],
        years=[S0, S0 + 1],
        cascades={"main": [("everyone", "alive"), ("ab stage", "ab"), ("b stage", "b")]},
    )
    w = World(spec)
    r = w.run(progs=False)
    r.name = "res"
    return w, r


OUTPUTS = ["a", "inf", "prev", "rec", "a:b", {"n_ab": ["a", "b"]}, {"p_ip": ["inf", "pr2"]}, {"form": "a+b"}, {"p_rb": ["rec", "back"]}, {"f_mix": ["a:b", "c:a"]}]  # p_rb / f_mix: members leave different compartments (different weights)
POPS = ["pa", "pb", ["pa", "pb"], "total", [{"both": ["pa", "pb"]}]]
OAGG = [None, "sum", "average", "weighted"]
PAGG = [None, "sum", "average", "weighted"]
TRANSFORMS = ["raw", "interp", "tagg_int", "tagg_avg"]


def oname(o):
    return list(o.keys())[0] if isinstance(o, dict) else o


def cases(tier):
    kmax = 3 if tier == "quick" else 4
    for k in range(1, kmax + 1):
        for sel in itertools.permutations(range(len(OUTPUTS)), k):
            if k == 4 and sel[0] > 2:
                continue
            yield dict(kind="select", sel=list(sel))
    yield dict(kind="addup")
    for i in range(len(OUTPUTS)):
        yield dict(kind="tbins", out=i)
    for k in (1, 2, 3):
        for sel in itertools.permutations(range(len(POPITEMS)), k):
            yield dict(kind="popselect", sel=list(sel))
    for d in (1, 2):
        for seq in itertools.product(PROG_OPS, repeat=d):
            yield dict(kind="purity_progs", seq=list(seq))
    yield dict(kind="cascade_results")
    yield dict(kind="cascade_data")
    ops = ["plotdata", "plot_series", "plot_bars", "plot_cascade", "cascade_vals", "export", "result_plot", "get_variable", "plotdata_flows", "copy"]
    for d in (1, 2, 3):
        for seq in itertools.product(ops, repeat=d):
            if d == 3 and tier == "quick" and seq[0] not in ("plotdata", "cascade_vals", "get_variable"):
                continue
            yield dict(kind="purity", seq=list(seq))


_CACHE = {}


def world():
    if "w" not in _CACHE:
        _CACHE["w"] = make_world()
    return _CACHE["w"]


def plotdata(r, outputs, pops, oagg, pagg, transform):
    kw = {}
    if oagg:
        kw["output_aggregation"] = oagg
    if pagg:
        kw["pop_aggregation"] = pagg
    d = at.PlotData(r, outputs=outputs, pops=pops, **kw)
    if transform == "interp":
        d.interpolate(np.array([S0 + 0.1, S0 + 1.0, S0 + 2.35]))
    elif transform == "tagg_int":
        d.time_aggregate(np.array([S0, S0 + 1.0, S0 + 1.5, S0 + 3.0]), "integrate")
    elif transform == "tagg_avg":
        d.time_aggregate(np.array([S0, S0 + 1.0, S0 + 1.5, S0 + 3.0]), "average")
    return d


_SINGLE = {}


def singleton(r, o, pi, oagg, pagg, tr):
    key = (oname(o), pi, oagg, pagg, tr)
    if key not in _SINGLE:
        try:
            d = plotdata(r, [o], POPS[pi], oagg, pagg, tr)
            _SINGLE[key] = {(s.pop, s.output): np.array(s.vals, dtype=float) for s in d.series}
        except Exception as e:
            _SINGLE[key] = e
    return _SINGLE[key]


def run_select(case):
    w, r = world()
    outs = [OUTPUTS[i] for i in case["sel"]]
    vs = []
    ncalls = ncmp = 0
    for pi, oagg, pagg, tr in itertools.product(range(len(POPS)), OAGG, PAGG, TRANSFORMS):
        singles = [singleton(r, o, pi, oagg, pagg, tr) for o in outs]
        if any(isinstance(s_, Exception) for s_ in singles):
            continue  # the option is not applicable to one of the outputs on its own; nothing to compare against
        try:
            d = plotdata(r, outs, POPS[pi], oagg, pagg, tr)
        except Exception as e:
            vs.append(V("joint-call-fails", f"outputs {[oname(o) for o in outs]} pops={POPS[pi]} output_aggregation={oagg} pop_aggregation={pagg} {tr}: every output works on its own but the joint call raises {type(e).__name__}: {str(e)[:120]}", None))
            break
        ncalls += 1
        got = {(s.pop, s.output): np.array(s.vals, dtype=float) for s in d.series}
        for o, ref in zip(outs, singles):
            for key, v in ref.items():
                ncmp += 1
                g = got.get(key)
                if g is None or g.shape != v.shape or not np.allclose(g, v, rtol=1e-12, atol=0, equal_nan=True):
                    vs.append(V("depends-on-other-outputs", f"output {key[1]!r} pop {key[0]!r} (pops={POPS[pi]}, output_aggregation={oagg}, pop_aggregation={pagg}, {tr}): requested together with {[oname(x) for x in outs]} in this order gives {None if g is None else g[:3].tolist()}..., on its own {v[:3].tolist()}...", dict(outputs=[oname(x) for x in outs])))
                    break
            if vs:
                break
        if vs:
            break
    return dict(states=ncalls, transitions=ncmp, nontrivial=len(outs) > 1, violations=vs[:2], counters=dict(plotdata_calls=ncalls, series_compared=ncmp))


POPITEMS = ["pa", "pb", {"ga": ["pa"]}, {"gb": ["pb"]}, {"both": ["pa", "pb"]}, {"rev": ["pb", "pa"]}]


def run_popselect(case):
    """the dual of run_select: the series of one population / population group must not depend on which other populations or groups are requested with it"""
    w, r = world()
    sel = [POPITEMS[i] for i in case["sel"]]
    vs = []
    ncalls = ncmp = 0
    for o, oagg, pagg, tr in itertools.product(OUTPUTS, OAGG, PAGG, ("raw", "tagg_int")):
        if oagg and not isinstance(o, dict):
            continue  # output aggregation options only matter for aggregated outputs
        singles = []
        for it in sel:
            key = ("popsingle", oname(o), oname(it), oagg, pagg, tr)
            if key not in _SINGLE:
                try:
                    d = plotdata(r, [o], [it], oagg, pagg, tr)
                    _SINGLE[key] = {(s_.pop, s_.output): np.array(s_.vals, dtype=float) for s_ in d.series}
                except Exception as e:
                    _SINGLE[key] = e
            singles.append(_SINGLE[key])
        if any(isinstance(s_, Exception) for s_ in singles):
            continue
        try:
            d = plotdata(r, [o], sel, oagg, pagg, tr)
        except Exception as e:
            vs.append(V("joint-call-fails", f"output {oname(o)} pops={sel} output_aggregation={oagg} pop_aggregation={pagg} {tr}: every population works on its own but the joint call raises {type(e).__name__}: {str(e)[:120]}", None))
            break
        ncalls += 1
        got = {(s_.pop, s_.output): np.array(s_.vals, dtype=float) for s_ in d.series}
        for ref in singles:
            for key, v in ref.items():
                ncmp += 1
                g = got.get(key)
                if g is None or g.shape != v.shape or not np.allclose(g, v, rtol=1e-12, atol=0, equal_nan=True):
                    vs.append(V("depends-on-other-populations", f"output {key[1]!r} population {key[0]!r} (output_aggregation={oagg}, pop_aggregation={pagg}, {tr}): requested together with {sel} in this order gives {None if g is None else g[:3].tolist()}..., on its own {v[:3].tolist()}...", dict(pops=[oname(x) for x in sel])))
                    break
            if vs:
                break
        if vs:
            break
    return dict(states=ncalls, transitions=ncmp, nontrivial=len(sel) > 1, violations=vs[:2], counters=dict(plotdata_calls=ncalls, series_compared=ncmp))


def run_addup(case):
    w, r = world()
    vs = []
    n = 0
    g = lambda outputs, pops, **kw: {(s.pop, s.output): np.array(s.vals) for s in at.PlotData(r, outputs=outputs, pops=pops, **kw).series}
    a = g(["a"], ["pa", "pb"])
    b = g(["b"], ["pa", "pb"])
    # summed output aggregate = sum of parts (default for number units, and explicit)
    for kw in ({}, dict(output_aggregation="sum")):
        for pop in ("pa", "pb"):
            s_ = g([{"n_ab": ["a", "b"]}], [pop], **kw)[(pop, "n_ab")]
            n += 1
            if not np.allclose(s_, a[(pop, "a")] + b[(pop, "b")], rtol=1e-12):
                vs.append(V("sum-not-sum-of-parts", f"n_ab in {pop} with {kw or 'default aggregation'} is not a + b", None))
    # averages between the parts
    i_ = g(["inf"], ["pa", "pb"])
    p_ = g(["pr2"], ["pa", "pb"])
    for kw in ({}, dict(output_aggregation="average")):
        for pop in ("pa", "pb"):
            s_ = g([{"p_ip": ["inf", "pr2"]}], [pop], **kw)[(pop, "p_ip")]
            lo, hi = np.minimum(i_[(pop, "inf")], p_[(pop, "pr2")]), np.maximum(i_[(pop, "inf")], p_[(pop, "pr2")])
            n += 1
            if np.any(s_ < lo - 1e-12) or np.any(s_ > hi + 1e-12):
                vs.append(V("average-outside-parts", f"p_ip in {pop} with {kw or 'default aggregation'} lies outside [min, max] of its parts", None))
    # population aggregates
    for popsarg, nm in (("total", "Total"), ([{"both": ["pa", "pb"]}], "both")):
        for kw in ({}, dict(pop_aggregation="sum")):
            s_ = g(["a"], popsarg, **kw)
            key = [k for k in s_ if k[1] == "a"][0]
            n += 1
            if not np.allclose(s_[key], a[("pa", "a")] + a[("pb", "a")], rtol=1e-12):
                vs.append(V("total-not-sum-over-populations", f"'a' for pops={popsarg} with {kw or 'default aggregation'} is not the sum over populations", None))
        for kw in ({}, dict(pop_aggregation="average"), dict(pop_aggregation="weighted")):
            s_ = g(["inf"], popsarg, **kw)
            key = [k for k in s_ if k[1] == "inf"][0]
            lo, hi = np.minimum(i_[("pa", "inf")], i_[("pb", "inf")]), np.maximum(i_[("pa", "inf")], i_[("pb", "inf")])
            n += 1
            if np.any(s_[key] < lo - 1e-12) or np.any(s_[key] > hi + 1e-12):
                vs.append(V("average-outside-parts", f"'inf' for pops={popsarg} with {kw or 'default aggregation'} lies outside the range of the populations", None))
    return dict(states=n, transitions=0, nontrivial=True, violations=vs[:4], counters=dict(addup_checks=n))


LATTICE = dict(alive={"a", "b", "c"}, ab={"a", "b"}, bc={"b", "c"}, a={"a"}, b={"b"}, c={"c"})


def chains(maxlen=3):
    names = list(LATTICE)
    for k in (1, 2, 3)[:maxlen]:
        for seq in itertools.permutations(names, k):
            if all(LATTICE[seq[i + 1]] <= LATTICE[seq[i]] for i in range(k - 1)):
                yield list(seq)


def run_cascade_results(case):
    w, r = world()
    vs = []
    n = 0
    forms = []
    nested = {tuple(ch) for ch in chains()}
    # every sequence of <= 3 stages over the lattice: a nested one must be accepted; whatever the library accepts as valid must not increase
    for k in (1, 2, 3):
        for ch in itertools.permutations(list(LATTICE), k):
            ch = list(ch)
            isn = tuple(ch) in nested
            forms.append((ch, isn))  # list form
            forms.append(({f"st{i}": [x] for i, x in enumerate(ch)}, isn))  # dict form, single constituent
            if len(ch) >= 2:
                forms.append(({f"st{i}": sorted(LATTICE[x]) for i, x in enumerate(ch)}, isn))  # dict form, expanded to compartments
    forms += [("main", True), (0, True)]
    n_refused = 0
    for cas, isn in forms:
        for pops in ("pa", "pb", ["pa", "pb"], "all"):
            for year in (None, [S0 + 1.0, S0 + 2.5], S0 + 0.75):
                try:
                    vals, t = at.get_cascade_vals(r, cas, pops=pops, year=year)
                except Exception as e:
                    if isn:
                        vs.append(V("valid-cascade-rejected", f"cascade {cas} pops={pops} year={year}: {type(e).__name__}: {str(e)[:150]}", None))
                    elif not isinstance(e, at.cascade.InvalidCascade):
                        raise
                    else:
                        n_refused += 1
                    continue
                n += 1
                arr = [np.asarray(v, dtype=float) for v in vals.values()]
                for i in range(len(arr) - 1):
                    if np.any(arr[i + 1] > arr[i] * (1 + 1e-12) + 1e-12):
                        vs.append(V("cascade-increases", f"cascade {cas} pops={pops} year={year}: stage {i + 1} exceeds stage {i}", None))
                        break
            if len(vs) > 3:
                break
        if len(vs) > 3:
            break
    return dict(states=n, transitions=0, nontrivial=True, violations=vs[:4], counters=dict(cascade_value_calls=n, cascades_refused_as_not_nested=n_refused))


def run_cascade_data(case):
    w, r = world()
    D, F = w.D, w.F
    vs = []
    n = 0
    has_data = {"a", "b", "c", "alive", "ab"}

    def entry(code, pop, year):
        ts = D.tdve[code].ts[pop]
        for tt, vv in zip(ts.t, ts.vals):
            if tt == year:
                return vv
        return np.nan

    forms = []
    for ch in chains():
        if all(x in has_data for x in ch):
            forms.append((ch, [[x] for x in ch]))
        forms.append(({f"st{i}": sorted(LATTICE[x]) for i, x in enumerate(ch)}, [sorted(LATTICE[x]) for x in ch]))
    forms.append(("main", [["alive"], ["ab"], ["b"]]))
    for cas, const in forms:
        for pops, plist in (("pa", ["pa"]), ("pb", ["pb"]), (["pa", "pb"], ["pa", "pb"]), ("all", ["pa", "pb"])):
            for years in ([S0], [S0, S0 + 1], [S0 + 1, S0], None):
                try:
                    vals, t = at.cascade.get_cascade_data(D, F, cas, pops=pops, year=years)
                except Exception as e:
                    vs.append(V("valid-cascade-rejected", f"data cascade {cas} pops={pops} year={years}: {type(e).__name__}: {str(e)[:150]}", None))
                    continue
                n += 1
                tt = np.asarray(t, dtype=float)
                for (stage, got), cs in zip(vals.items(), const):
                    exp = np.array([sum(entry(c, p, y) for c in cs for p in plist) for y in tt])
                    if not np.allclose(np.asarray(got, dtype=float), exp, rtol=1e-12, equal_nan=True):
                        vs.append(V("cascade-data-not-sum-of-entries", f"data cascade {cas} pops={pops} years={years}: stage {stage!r} reports {np.asarray(got).tolist()} but the databook entries of {cs} sum to {exp.tolist()}", None))
                        break
                if len(vs) > 3:
                    break
            if len(vs) > 3:
                break
        if len(vs) > 3:
            break
    return dict(states=n, transitions=0, nontrivial=True, violations=vs[:4], counters=dict(cascade_data_calls=n))


PROG_OPS = ["programs_plot_fraction", "programs_plot_number", "programs_plot_spending", "export", "get_coverage", "plotdata", "result_plot"]


def run_purity_progs(case):
    """the same purity question for a result that was produced with programs (coverage / spending plots, export of programme quantities)"""
    import matplotlib

    matplotlib.use("agg")
    import matplotlib.pyplot as plt
    from mc import simspace
    from mc.build import World

    spec = simspace.combined_spec(0.25, prog=True)
    spec["progs"]["progs"][0]["comps"] = ["sus", "vac"]  # a program reaching several (population, compartment) pairs
    w = World(spec)
    r = w.run(progs=True)
    r.name = "res"
    h0 = snap_hash(r, volatile=("_fcn", "_exec_order"))
    ref = {(s_.pop, s_.output): np.array(s_.vals) for s_ in at.PlotData(r, outputs=["sus", "vac", "alive"], pops=["pa1", "pb1"]).series}
    vs = []
    tmp = tempfile.mkdtemp(prefix="c20p_", dir="/dev/shm" if os.path.isdir("/dev/shm") else None)
    try:
        for i, op in enumerate(case["seq"]):
            if op.startswith("programs_plot_"):
                q = dict(fraction="coverage_fraction", number="coverage_number", spending="spending")[op.split("_")[-1]]
                at.plot_series(at.PlotData.programs(r, quantity=q))
            elif op == "export":
                at.export_results([r], os.path.join(tmp, f"e{i}.xlsx"))
            elif op == "get_coverage":
                for q in ("fraction", "number", "eligible", "capacity"):
                    r.get_coverage(q)
                r.get_alloc()
            elif op == "plotdata":
                at.PlotData(r, outputs=["sus", {"n": ["sus", "vac"]}], pops="total")
            elif op == "result_plot":
                r.plot()
            plt.close("all")
            if snap_hash(r, volatile=("_fcn", "_exec_order")) != h0:
                vs.append(V("reporting-modifies-result", f"result with programs: after {case['seq'][: i + 1]} the result object differs from its state before reporting", None))
                break
            now = {(s_.pop, s_.output): np.array(s_.vals) for s_ in at.PlotData(r, outputs=["sus", "vac", "alive"], pops=["pa1", "pb1"]).series}
            bad = [k for k in ref if not np.array_equal(ref[k], now[k], equal_nan=True)]
            if bad:
                vs.append(V("depends-on-earlier-requests", f"result with programs: after {case['seq'][: i + 1]} the output {bad[0]} differs from what the same request returned before", None))
                break
    finally:
        shutil.rmtree(tmp, ignore_errors=True)
    return dict(states=len(case["seq"]) + 1, transitions=len(case["seq"]), nontrivial=True, violations=vs[:2], counters=dict(purity_sequences=1))


def run_purity(case):
    import matplotlib

    matplotlib.use("agg")
    import matplotlib.pyplot as plt

    w, r = make_world()
    h0 = snap_hash(r, volatile=("_fcn", "_exec_order"))
    vs = []
    tmp = tempfile.mkdtemp(prefix="c20_", dir="/dev/shm" if os.path.isdir("/dev/shm") else None)
    try:
        for i, op in enumerate(case["seq"]):
            if op == "plotdata":
                at.PlotData(r, outputs=["a", {"n_ab": ["a", "b"]}, "inf"], pops="total").interpolate([S0 + 1])
            elif op == "plot_series":
                at.plot_series(at.PlotData(r, outputs=["a", "prev"], pops=["pa", "pb"]))
            elif op == "plot_bars":
                at.plot_bars(at.PlotData(r, outputs=["a", "b"], pops=["pa"], t_bins=[S0, S0 + 1, S0 + 2]))
            elif op == "plot_cascade":
                at.plot_cascade(r, cascade="main", pops="all", year=S0 + 1)
            elif op == "cascade_vals":
                at.get_cascade_vals(r, ["alive", "ab", "b"], pops="pa", year=[S0 + 1])
            elif op == "export":
                at.export_results([r], os.path.join(tmp, f"e{i}.xlsx"))
            elif op == "result_plot":
                r.plot()
            elif op == "copy":
                # copying / pickling a result (saving a project, parallel runs) is not an edit of the result
                sc.dcp(r)
                pickle.dumps(r)
                for nm, parts in (("back:flow", ("c:a", "b:a")),):
                    for pop in r.model.pops:
                        tot = sum(np.asarray(v.vals, dtype=float) for v in pop.get_variable(nm))
                        exp = sum(np.asarray(v.vals, dtype=float) for p_ in parts for v in pop.get_variable(p_))
                        if not np.allclose(tot, exp, rtol=1e-12, equal_nan=True):
                            vs.append(V("flow-total-not-sum-of-parts", f"after {case['seq'][: i + 1]}: {nm} in {pop.name} is not the sum of {parts}", None))
            elif op == "get_variable":
                # the accessor the plotting / export code uses to find out which populations hold an output: flows by name, all populations
                for nm in ("a:b", "inf:flow", ":c", "a:", "a", "prev", "inf"):
                    r.get_variable(nm)
            elif op == "plotdata_flows":
                at.PlotData(r, outputs=["a:b", ":c", "inf:flow"], pops="total")
                at.PlotData(r, outputs=["a:", "rec:flow"], pops=["pb", "pa"])
            plt.close("all")
            if snap_hash(r, volatile=("_fcn", "_exec_order")) != h0:
                vs.append(V("reporting-modifies-result", f"after {case['seq'][: i + 1]} the result object differs from its state before reporting", None))
                break
    finally:
        plt.close("all")
        shutil.rmtree(tmp, ignore_errors=True)
    return dict(states=len(case["seq"]) + 1, transitions=len(case["seq"]), nontrivial=True, violations=vs, counters=dict(purity_sequences=1))


TBIN_EDGES = [[S0, S0 + 1.0, S0 + 1.5, S0 + 3.0], [S0 + 0.5, S0 + 0.75, S0 + 2.0, S0 + 2.6, S0 + 3.0]]


def run_tbins(case):
    """the value reported for a time bin [l, u] depends on l, u and the aggregation options only - not on which other bins are asked for in the same
    call (every sub-list of the edge list with >= 2 edges is a call; every bin is compared across all calls that contain it); an average lies
    between the smallest and the largest value of the series inside the bin"""
    w, r = world()
    o = OUTPUTS[case["out"]]
    vs = []
    ncalls = ncmp = 0
    for pops, method, interp, edges in itertools.product(["pa", ["pa", "pb"], "total"], (None, "integrate", "average"), (None, "previous"), TBIN_EDGES):
        seen = {}
        try:
            raw = {(s_.pop, s_.output): (np.array(s_.tvec, dtype=float), np.array(s_.vals, dtype=float)) for s_ in at.PlotData(r, outputs=[o], pops=pops).series}
        except Exception:  # noqa
            continue
        for k in range(2, len(edges) + 1):
            for sub in itertools.combinations(edges, k):
                try:
                    d = at.PlotData(r, outputs=[o], pops=pops).time_aggregate(np.array(sub), method, interp)
                except Exception as e:  # noqa
                    vs.append(V(f"time-aggregation-fails:{type(e).__name__}", f"output {oname(o)} pops={pops} bins {list(sub)} {method}/{interp}: {type(e).__name__}: {str(e)[:120]}", None))
                    break
                ncalls += 1
                for s_ in d.series:
                    for i, (lo, hi) in enumerate(zip(sub[:-1], sub[1:])):
                        ncmp += 1
                        v = float(s_.vals[i])
                        key = (s_.pop, s_.output, lo, hi)
                        if key in seen and not np.isclose(v, seen[key][0], rtol=1e-9, atol=1e-12, equal_nan=True):
                            vs.append(V("time-bin-depends-on-other-bins", f"output {s_.output!r} pop {s_.pop!r} ({method}/{interp}): the bin [{lo}, {hi}] is {v!r} when the edges {list(sub)} are requested and {seen[key][0]!r} when the edges {seen[key][1]} are requested", None))
                            break
                        seen.setdefault(key, (v, list(sub)))
                        if str(s_.units).startswith("Average") and interp is None and np.isfinite(v):
                            t0, v0 = raw[(s_.pop, s_.output)]
                            inside = np.concatenate([v0[(t0 >= lo) & (t0 <= hi)], np.interp([lo, hi], t0, v0)])
                            if v < inside.min() - 1e-9 * max(1, abs(inside.min())) or v > inside.max() + 1e-9 * max(1, abs(inside.max())):
                                vs.append(V("time-average-outside-range", f"output {s_.output!r} pop {s_.pop!r}: the average over [{lo}, {hi}] (edges {list(sub)}) is {v!r}, outside the range [{inside.min()!r}, {inside.max()!r}] the series takes in the bin", None))
                                break
                    if vs:
                        break
                if vs:
                    break
            if vs:
                break
        if vs:
            break
    return dict(states=ncalls, transitions=ncmp, nontrivial=ncalls > 0, violations=vs[:2], counters=dict(time_bin_calls=ncalls, time_bins_compared=ncmp))


def run_case(case):
    if case["kind"] == "tbins":
        return run_tbins(case)
    return dict(select=run_select, popselect=run_popselect, addup=run_addup, cascade_results=run_cascade_results, cascade_data=run_cascade_data, purity=run_purity, purity_progs=run_purity_progs)[case["kind"]](case)
