"""C10 - restarting from a saved state continues the original trajectory exactly"""

import copy
import numpy as np
import sciris as sc
import atomica as at

from mc import simspace
from mc.oracles import V
from mc.build import World
from mc.props import c06
from mc.props.c09 import arrays

LEVEL = "model_checking"
RULE = (
    "Explicit-state exploration of restart chains: state = (model, chain of restart years). From the original run, EVERY grid year Y is used to save the state into the parameter set and start a new simulation at Y, "
    "which is compared with the tail of its parent at every index >= Y (times to 1e-9; stocks, elapsed-time bins, flows, parameters, characteristics); each restarted run is itself restarted at every one of its grid years "
    "(depth 2 quick / 3 thorough on a thinned year set). Second route per first-level state: through calibration_spreadsheet() -> load_calibration() (1e-9). "
    "Models: timed compartments, duration groups through plain and residual junctions, two populations with different durations and transfers, programs active before/after/across Y, functions of t and of state; dt alphabet."
)
ASSUMPTIONS = [
    "no derivative parameters (excluded by the property)",
    "in-memory route compared to rtol 1e-10 (the restarted time grid may differ from the original in the last bit, which moves interpolated data by ~1e-16)",
    "spreadsheet route compared to 1e-9 (16 significant digits)",
]
CASE_TIMEOUT = 900
S0 = simspace.START


def model_specs(tier):
    dts = simspace.DTS[tier][:3] if tier == "quick" else [1.0, 0.25, 1 / 12, 0.1, 0.3]
    for dt in dts:
        yield f"combined", dt, simspace.combined_spec(dt, v=0.3, dur=1.0, tj=0.2, pa=0.3, d=0.01, br=5.0, prog=True)
        sb = simspace.combined_spec(dt, v=0.3, dur=1.0, tj=0.2, pa=0.3, d=0.01, br=5.0, prog=True)
        sb["progs"]["instr"] = dict(start=S0, alloc={"P1": {"t": [S0, S0 + 1], "v": [1000.0, 3000.0]}}, capacity={"P2": {"t": [S0, S0 + 1.5], "v": [10.0, 30.0]}})
        yield "combined_dated_budget", dt, sb
        yield f"combined_d5_12", dt, simspace.combined_spec(dt, v=0.3, dur=5 / 12, tj=0.2, pa=1.7, d=0.01, br=5.0, prog=False)
        for s in simspace.timed(tier):
            tm = s["timed"]
            if abs(s["sim"][2] - dt) < 1e-12 and tm["struct"] in ("group", "group_junction2", "group_resjunction", "two_pops") and tm["D"] in ("3dt", "2.5dt") and tm["extra"] == 0.3 and tm["ainit"] == 60.0:
                yield f"timed_{tm['struct']}_{tm['D']}", dt, s
        yield "state_prog", dt, c06.model("state", dt, "three", 1.0, 1.0, "both", True, None)
    # step sizes that do not survive the 16 significant digits of a spreadsheet (the saved state carries its dt as metadata)
    for dt in (1 / 52, 1 / 24):
        for s in simspace.timed("thorough"):
            tm = s["timed"]
            if abs(s["sim"][2] - 1 / 52) < 1e-12 and tm["struct"] in ("group_resjunction", "single") and tm["D"] == "3dt" and tm["extra"] == 0.3 and tm["ainit"] == 60.0:
                s2 = copy.deepcopy(s)
                k = dt / s["sim"][2]
                s2["sim"] = [s["sim"][0], s["sim"][0] + 12 * dt, dt]
                for p in s2["pars"]:
                    if p["name"] == "dur":
                        p["val"] = 3 * dt
                    if p["name"] == "ex":
                        p["val"] = 0.3
                yield f"timed_{tm['struct']}_dt{round(1 / dt)}", dt, s2
        yield "agg", dt, c06.model("agg", dt, "three", 0.5, 1.5, "none", False, None)


def layout_specs(tier):
    """shapes of the saved-state table: one compartment per population (neighbouring rows carry the same compartment name), 2-3 populations,
    a population type with a single compartment next to an ordinary one"""
    for dt in (0.25, 1.0):
        for npop in (1, 2, 3):
            pops = ["pa", "pb", "pc"][:npop]
            spec = dict(
                comps=[dict(name="a", kind="ord", init={p: 100.0 / (i + 1) for i, p in enumerate(pops)})],
                pars=[dict(name="g", fmt="number", fn="a*0.5")],
                links=[],
                characs=[],
                pops=pops,
                sim=[S0, S0 + 3, dt],
            )
            if npop > 1:
                spec["transfers"] = [dict(name="mig", units="rate", pairs={f"{pops[i]}>{pops[i + 1]}": 0.1 * (i + 1) for i in range(npop - 1)})]
            yield f"one_compartment_{npop}_pops", dt, spec
        spec = dict(
            comps=[dict(name="a", kind="ord", init=100.0, ptype="ta"), dict(name="b", kind="ord", init=10.0, ptype="ta"), dict(name="x", kind="ord", init={"pb": 30.0, "pc": 5.0}, ptype="tb")],
            pars=[dict(name="r1", fmt="rate", val=0.4, ptype="ta")],
            links=[["a", "b", "r1"]],
            characs=[],
            ptypes=["ta", "tb"],
            pops=["pa", "pb", "pc"],
            pop_types={"pa": "ta", "pb": "tb", "pc": "tb"},
            sim=[S0, S0 + 3, dt],
            transfers=[dict(name="mig", units="rate", pairs={"pb>pc": 0.2}, ptype="tb")],
        )
        yield "single_compartment_type", dt, spec


def cases(tier):
    for name, dt, spec in layout_specs(tier):
        yield dict(name=name, dt=dt, spec=spec, depth=2)
    for name, dt, spec in model_specs(tier):
        yield dict(name=name, dt=dt, spec=spec, depth=2 if tier == "quick" else 3)


def compare_tail(parent, child, k, label, rtol, what):
    """child started at parent's index k"""
    tp, tc = parent["t"], child["t"]
    n = len(tc)
    if len(tp) - k != n or not np.allclose(tp[k:], tc, rtol=0, atol=1e-9):
        return [V("restart-grid", f"{label}: restarted grid has {n} points [{tc[0]!r}..{tc[-1]!r}], the tail of the parent has {len(tp) - k} [{tp[k]!r}..{tp[-1]!r}]", None)]
    scale = max(1.0, max(float(np.nanmax(np.abs(v))) for kk, v in parent["a"].items() if kk[0] == "comp"))
    for key, vp in parent["a"].items():
        vc = child["a"].get(key)
        if vc is None:
            return [V("restart-missing-output", f"{label}: {key} missing", None)]
        x, y = vp[k:], vc
        m = n - 1 if key[0] == "link" else n
        ok = np.isclose(x[:m], y[:m], rtol=rtol, atol=1e-12 * scale, equal_nan=True)
        if not ok.all():
            i = int(np.argmax(~ok.reshape(ok.shape[0], -1).all(axis=1)))
            return [V(what, f"{label}: {key} at restarted index {i} (t={tc[i]!r}) is {np.asarray(y[i]).tolist()!r}, the original run has {np.asarray(x[i]).tolist()!r}", dict(key=list(map(str, key)), index=i))]
    return []


def run_from(w, parset, start):
    s, e, dt = w.spec["sim"]
    w.P.settings.update_time_vector(start=start, end=e, dt=dt)
    r = w.P.run_sim(parset, w.progset, w.instr, store_results=False)
    return r


def run_case(case):
    spec = case["spec"]
    w = World(spec)
    vs = []
    r0 = run_from(w, w.parset, spec["sim"][0])
    root = dict(t=np.array(r0.model.t), a=arrays(r0), r=r0, chain=[])
    frontier = [root]
    states = 1
    trans = 0
    depth = case["depth"]
    # object lifetimes: EVERY state is saved (each into its own copy of the parameter set) before ANY of them is used, then they are used oldest first
    saved = []
    for k in range(len(root["t"]) - 1):
        ps = sc.dcp(w.parset)
        ps.set_initialization(r0, float(root["t"][k]))
        saved.append((k, ps))
    for k, ps in saved:
        Y = float(root["t"][k])
        r1 = run_from(w, ps, Y)
        trans += 1
        vs += compare_tail(root, dict(t=np.array(r1.model.t), a=arrays(r1)), k, f"{case['name']} dt={case['dt']!r} state of {Y} used after all other states had been saved", 1e-10, "saved-states-interfere")
        if k % 3 == 0:
            # the same parameter set (with its saved state) is used for a second run
            r1b = run_from(w, ps, Y)
            trans += 1
            a1, a2 = arrays(r1), arrays(r1b)
            bad = [kk for kk in a1 if not np.array_equal(a1[kk], a2[kk], equal_nan=True)]
            if bad:
                vs.append(V("saved-state-consumed-by-first-use", f"{case['name']} dt={case['dt']!r}: second run from the parameter set holding the state of {Y} differs from the first in {bad[0]}", None))
        if len(vs) >= 3:
            break
    del saved
    prev_saved = None
    for level in range(depth):
        nxt = []
        for node in frontier:
            T = len(node["t"])
            idxs = range(T - 1) if level == 0 else (range(0, T - 1, 1) if level == 1 and T <= 30 else range(0, T - 1, max(1, T // 6)))
            for k in idxs:
                Y = float(node["t"][k])
                ps = sc.dcp(w.parset)
                ps.set_initialization(node["r"], Y)
                r1 = run_from(w, ps, Y)
                child = dict(t=np.array(r1.model.t), a=arrays(r1), r=r1, chain=node["chain"] + [Y])
                trans += 1
                states += 1
                lab = f"{case['name']} dt={case['dt']!r} restart chain {child['chain']}"
                v = compare_tail(node, child, k, lab, 1e-10, "restart-diverges")
                vs += v
                if level == 0 and not v:
                    # spreadsheet route
                    ss = ps.calibration_spreadsheet()
                    ps3 = sc.dcp(w.parset)
                    ps3.load_calibration(ss)
                    r3 = run_from(w, ps3, Y)
                    trans += 1
                    vs += compare_tail(node, dict(t=np.array(r3.model.t), a=arrays(r3)), k, lab + " via calibration spreadsheet", 1e-9, "restart-via-spreadsheet-diverges")
                    if prev_saved is not None and k % 2 == 0:
                        # the spreadsheet is loaded into a parameter set that already holds ANOTHER saved state: the loaded one replaces it
                        ps4 = sc.dcp(prev_saved)
                        ps4.load_calibration(ss)
                        r4 = run_from(w, ps4, Y)
                        trans += 1
                        vs += compare_tail(node, dict(t=np.array(r4.model.t), a=arrays(r4)), k, lab + " via calibration spreadsheet loaded over another saved state", 1e-9, "loaded-state-does-not-replace-held-state")
                    prev_saved = ps
                if not v and level + 1 < depth:
                    nxt.append(child)
                if len(vs) >= 3:
                    break
            node.pop("r", None)
            if len(vs) >= 3:
                break
        frontier = nxt
        if len(vs) >= 3:
            break
    w.P.settings.update_time_vector(start=spec["sim"][0], end=spec["sim"][1], dt=spec["sim"][2])
    return dict(states=states, transitions=trans, traces=trans, nontrivial=True, violations=vs[:3], counters=dict(restarts=trans))
