"""C04 - junctions are always empty and split their inflow by the stated proportions; initial flush"""

import itertools
import math
import numpy as np
from atomica.model import JunctionCompartment, ResidualJunctionCompartment, TimedLink

from mc import simspace, refsim, conform, oracles
from mc.oracles import V
from mc.build import run_spec, World

LEVEL = "model_checking"
RULE = (
    "Every junction gadget (single, residual, fan, chain, diamond declared downstream-first, residual feeding a plain junction, junction inside a duration group) x all proportion vectors over the level alphabet "
    "x proportion source (constant / time-varying data / function of model state / program-driven) x initial junction contents {0, 50} x dt; on every state: junction empty, inflow = outflow, "
    "each outflow = the documented share recomputed from the result's own proportion values; index 0 compared with the reference initial flush. Non-trivial = a junction that receives people."
)
ASSUMPTIONS = [
    "bounds: <= 3 junctions per gadget, <= 4 proportion parameters, proportion levels {0,.5,1.5} (quick) / {0,.2,.5,.8,1,1.5} (thorough)",
    "domain restriction of C01/C04: plain junction receiving people has a positive proportion sum (decided from the spec)",
    "shares compared to rtol 1e-9; initial flush compared with mc/refsim.py at index 0 (rtol 1e-8)",
]
CASE_TIMEOUT = 60


def prog_gadgets(tier):
    """proportions driven by a program active from t0 (or from mid-run), junction initialised non-empty"""
    for gadget in ("single", "residual"):
        for dt in simspace.DTS[tier][:3]:
            for jinit in (0.0, 50.0):
                for start in (simspace.START, simspace.START + 1):
                    for base, out in ((0.5, 0.9), (0.2, 0.0), (1.0, 0.3)):
                        spec = simspace._jbase(dt, jinit)
                        simspace.build_gadget(spec, gadget, [base, 0.5], jinit)
                        for p in spec["pars"]:
                            if p["name"] == "q0":
                                p["targ"] = True
                        spec["progs"] = dict(progs=[dict(name="P1", pops=["pa"], comps=["a"], spend=3000.0, uc=10.0, oneoff=False)], covouts=[dict(par="q0", pop="pa", base=base, progs={"P1": out})], instr=dict(start=start))
                        spec["tag"] = "junction_prog"
                        spec["gadget"] = dict(name=gadget, props=[base, 0.5], psrc="prog", jinit=jinit, ok=True)
                        yield spec


def cases(tier):
    yield from prog_gadgets(tier)
    yield from simspace.junctions(tier)
    yield from (s for s in simspace.timed(tier) if s["timed"]["struct"].startswith("group_") and s["timed"]["struct"] != "group")
    yield from simspace.combined(tier)


def shares(r, rtol=1e-9):
    m = r.model
    out = []
    received = False
    T = len(m.t)
    for pop in m.pops:
        for c in pop.comps:
            if not isinstance(c, JunctionCompartment):
                continue
            v = np.asarray(c.vals)
            if (v != 0).any():
                i = int(np.argmax(v != 0))
                out.append(V("junction-nonempty", f"junction {pop.name}/{c.name} holds {v[i]!r} at index {i}", None))
            inflow = np.zeros(T)
            for l in c.inlinks:
                inflow = inflow + np.asarray(l.vals)
            if inflow[:-1].max(initial=0) > 0:
                received = True
            resid = isinstance(c, ResidualJunctionCompartment)
            for ti in range(T - 1):
                x = float(inflow[ti])
                props = [(l.parameter.vals[ti] if l.parameter is not None else None) for l in c.outlinks]
                stated = [p for p in props if p is not None]
                tot = sum(stated)
                flows = [float(np.asarray(l.vals)[ti]) for l in c.outlinks]
                if resid:
                    sc = 1.0 / tot if tot > 1 else 1.0
                    exp = [(x * p * sc if p is not None else None) for p in props]
                    rest = x - sum(e for e in exp if e is not None) if tot < 1 else 0.0
                    exp = [rest if e is None else e for e in exp]
                else:
                    if x == 0:
                        exp = [0.0 for _ in props]
                    elif tot == 0:
                        continue  # outside the domain
                    else:
                        exp = [x * p / tot for p in props]
                for l, f, e in zip(c.outlinks, flows, exp):
                    if not (abs(f - e) <= rtol * max(1.0, abs(e)) or f == e):
                        out.append(V("junction-share", f"junction {pop.name}/{c.name} step {ti}: outflow to {l.dest.name} is {f!r}, stated proportions {props} of inflow {x!r} give {e!r}", dict(pop=pop.name, comp=c.name, index=ti)))
                        break
                if abs(sum(flows) - x) > rtol * max(1.0, abs(x)):
                    out.append(V("junction-imbalance", f"junction {pop.name}/{c.name} step {ti}: in {x!r} out {sum(flows)!r}", None))
                if len(out) > 4:
                    return out, received
    return out, received


def run_case(spec):
    g = spec.get("gadget")
    if g is not None and not g["ok"]:
        return dict(states=0, transitions=0, nontrivial=False, violations=[], counters=dict(out_of_domain=1))
    w, r = run_spec(spec)
    T = len(r.model.t)
    vs, received = shares(r)
    # initial flush: compare state at index 0 (and the total) with the reference
    tr = refsim.simulate(spec)
    for pop in r.model.pops:
        for c in pop.comps:
            ref = tr.comp[(pop.name, c.name)][0]
            got = float(np.asarray(c.vals)[0])
            if not (abs(got - ref) <= 1e-8 * max(1.0, abs(ref))):
                vs.append(V("initial-flush", f"{pop.name}/{c.name} at index 0 is {got!r}; pushing the initial junction contents downstream by the stated proportions gives {ref!r}", None))
    # total preserved by the flush
    init_total = 0.0
    for c in spec["comps"]:
        if c.get("kind", "ord") in ("ord", "junc") and c.get("init") is not None:
            for pop in spec.get("pops") or ["pa"]:
                v = c["init"]
                v = v.get(pop) if isinstance(v, dict) and "t" not in v else v
                init_total += float(v if not isinstance(v, dict) else v["v"][0])
    from atomica.model import SourceCompartment, SinkCompartment

    got_total = sum(float(np.asarray(c.vals)[0]) for pop in r.model.pops for c in pop.comps if not isinstance(c, (SourceCompartment, SinkCompartment)))
    if spec.get("tag") != "combined" and abs(got_total - init_total) > 1e-8 * max(1.0, init_total):
        vs.append(V("initial-flush-total", f"total after the initial flush is {got_total!r}, initial conditions sum to {init_total!r}", None))
    extra = {}
    if g and g.get("jinit") and g.get("psrc") == "const" and spec.get("tag") == "junctions":
        # second route for people who start inside a junction: an explicit initial state (Initialization) instead of the databook.
        # The databook gets empty junctions, the saved state of index 0 gets the junction contents: both must give the same run.
        import copy
        import sciris as sc

        spec0 = copy.deepcopy(spec)
        jv = {}
        for c in spec0["comps"]:
            if c.get("kind") == "junc" and c.get("init"):
                jv[c["name"]] = c.pop("init")  # no databook entry and no default: the junction plays no part in the databook initialisation
        w0, r0 = run_spec(spec0)
        ps = sc.dcp(w0.parset)
        ps.set_initialization(r0, float(r0.model.t[0]))
        for pop in r0.model.pops:
            for name, v in jv.items():
                ps.initialization.values[(name, pop.name)] = float(v)
        r1 = w0.P.run_sim(ps, store_results=False)
        from mc.props.c09 import arrays

        a0, a1 = arrays(r), arrays(r1)
        for k, v0 in a0.items():
            if not np.allclose(v0, a1[k], rtol=1e-9, atol=1e-12, equal_nan=True):
                i = int(np.argmax(~np.isclose(v0, a1[k], rtol=1e-9, atol=1e-12, equal_nan=True).reshape(v0.shape[0], -1).all(axis=1)))
                vs.append(V("initial-flush-from-explicit-state", f"people placed in the junction(s) {sorted(jv)} through an explicit initial state: {k} at index {i} is {np.asarray(a1[k][i]).tolist()!r}, through the databook {np.asarray(v0[i]).tolist()!r}", None))
                break
        extra["explicit_state_cases"] = 1
    return dict(states=T, transitions=T - 1, traces=1, nontrivial=received, violations=vs[:6], counters={"tag_" + spec.get("tag", "?"): 1, "jinit_cases": int(bool(g and g.get("jinit"))), **extra})
