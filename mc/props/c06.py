"""C06 - parameter values follow data x calibration -> function -> program -> limits"""

import itertools
import numpy as np

from mc import simspace, refsim, conform
from mc.oracles import V
from mc.build import run_spec

LEVEL = "model_checking"
RULE = (
    "Parameter dependency graphs on <= 4 parameters (chain, diamond, fan, functions of compartments / characteristics / time, cross-population aggregation with interaction weights, output parameter of a flow) "
    "x data pattern {assumption, one year, three years, all years outside the run} x population factor {1, .5, 2} x all-population factor {1, 1.5} x limits {none, min, max, both; binding} "
    "x programs {off, on from mid-run} x parameter scenario {none, on the data parameter (linear / stepped), on a step-by-step function parameter, on a pre-computable function parameter} x dt; "
    "every parameter, population and time index is compared with the reference recomputation (mc/refsim.py: data -> factors -> function of same-step values -> program outcome -> aggregation -> limits), together with all stocks and flows. "
    "Non-trivial = at least one parameter whose value varies in time."
)
ASSUMPTIONS = [
    "calibration factors multiply the function value as well as the data (the documented behaviour: the force-of-infection function parameter is calibrated through its y-factor); program outcomes are not scaled",
    "bounds: <= 4 parameters in the dependency graph, <= 2 populations, function grammar + * / max and the aggregation functions",
    "scenario values are data: they are scaled by the calibration factors and clipped by the limits like databook values",
]
CASE_TIMEOUT = 60
S0 = simspace.START

DATA = dict(
    assume=0.2,
    one={"t": [S0 + 1], "v": [0.3]},
    three={"t": [S0, S0 + 1, S0 + 3], "v": [0.1, 0.4, 0.2]},
    outside={"t": [S0 - 10, S0 - 5], "v": [0.1, 0.3]},
)
LIMITS = dict(none=(None, None), min=(0.25, None), max=(None, 0.3), both=(0.15, 0.35))


def model(shape, dt, data, yf, myf, lim, prog, scen):
    end = S0 + 4
    two = shape == "agg"
    spec = dict(
        comps=[dict(name="a", kind="ord", init=100.0 if not two else {"pa": 100.0, "pb": 40.0}), dict(name="b", kind="ord", init=20.0 if not two else {"pa": 20.0, "pb": 1.0}), dict(name="c", kind="ord", init=5.0)],
        pars=[],
        links=[["b", "c", "rec"], ["c", "a", "back"]],
        characs=[dict(name="alive", comps=["a", "b", "c"]), dict(name="prev", comps=["b"], denom="alive")],
        pops=["pa", "pb"] if two else ["pa"],
        sim=[S0, end, dt],
        years=[S0, S0 + 1, S0 + 3],
        tag="c06",
    )
    P = spec["pars"]
    lo, hi = LIMITS[lim]
    p1 = dict(name="p1", fmt=None, val=DATA[data], yf=yf, myf=None)
    drv = dict(name="drv", fmt="probability", targ=True, myf=myf)
    P += [dict(name="rec", fmt="rate", val=0.3), dict(name="back", fmt="rate", val=0.2)]
    if shape == "chain":
        P += [p1, dict(name="p2", fmt=None, fn="p1*2", min=lo, max=hi), dict(drv, fn="p2+0.05")]
    elif shape == "diamond":
        P += [p1, dict(name="p2", fmt=None, fn="p1+0.1", min=lo, max=hi), dict(name="p3", fmt=None, fn="max(p1,0.2)"), dict(drv, fn="p2*p3")]
    elif shape == "fan":
        P += [p1, dict(drv, fn="p1*0.5", min=None if lo is None else lo / 2, max=None if hi is None else hi / 2), dict(name="drv2", fmt="rate", fn="p1/4")]
        spec["links"].append(["a", "c", "drv2"])
    elif shape == "state":
        P += [p1, dict(name="p2", fmt=None, fn="b/(a+b+c)", min=lo, max=hi), dict(name="p3", fmt=None, fn="prev"), dict(drv, fn="p1*(p2+p3)/2+0.01*(t-2000)")]
    elif shape == "agg":
        # transfers and interactions carry the same calibration factors as the parameters (population factor x all-population factor)
        spec["interactions"] = [dict(name="mix", pairs={"pa>pa": 1.0, "pa>pb": 0.5, "pb>pa": 0.2, "pb>pb": 2.0}, yf=None if yf == 1.0 else {"pa>pb": yf}, myf=None if myf == 1.0 else myf)]
        P += [p1, dict(name="foi", fmt=None, fn="SRC_POP_AVG(prev, mix, alive)", min=lo, max=hi), dict(drv, fn="foi*p1+0.02")]
        # open-ended flow references in a model with a transfer between the populations (every flow out of a / into b, the transfer included)
        P += [dict(name="outa", fmt=None, fn="a:"), dict(name="inb", fmt=None, fn=":b+0*a")]
        spec["transfers"] = [dict(name="mig", units="rate", pairs={"pa>pb": 0.1}, yf=None if yf == 1.0 else yf, myf=None if myf == 1.0 else myf)]
    elif shape == "flowout":
        P += [dict(p1, name="drv", fmt="probability", targ=True, min=lo, max=hi, myf=myf), dict(name="inc", fmt=None, fn="a:b*2"), dict(name="inc2", fmt=None, fn="inc+b:c"), dict(name="outa", fmt=None, fn="a:"), dict(name="inb", fmt=None, fn=":b+0*a")]  # outa / inb: open-ended references (every flow out of a / into b, transfers between populations included)
    spec["links"].append(["a", "b", "drv"])
    if prog == "base" and shape != "flowout":
        # the program targets the data parameter at the BOTTOM of the dependency chain: everything above it must follow in the same step
        for q in P:
            if q["name"] == "p1":
                q["targ"] = True
        spec["progs"] = dict(
            progs=[dict(name="P1", pops=list(spec["pops"]), comps=["a"], spend=400.0, uc=10.0, oneoff=False)],
            covouts=[dict(par="p1", pop=p, base=0.15, progs={"P1": 0.45}) for p in spec["pops"]],
            instr=dict(start=S0 + 2),
        )
    elif prog:
        spec["progs"] = dict(
            progs=[dict(name="P1", pops=list(spec["pops"]), comps=["a"], spend=400.0, uc=10.0, oneoff=False)],
            covouts=[dict(par="drv", pop=p, base=0.1 * dt, progs={"P1": 0.9 * dt}) for p in spec["pops"]],
            instr=dict(start=S0 + 2),
        )
    if scen:
        target, interp = scen
        tname = "p1" if (target == "data" and shape != "flowout") else "drv"
        if target == "fn" and shape == "flowout":
            return None
        spec["scen"] = [dict(par=tname, pop="pa", t=[S0 + 1.5, S0 + 3], y=[0.5, 0.1], interp=interp)]
    spec["c06"] = dict(shape=shape, data=data, yf=yf, myf=myf, lim=lim, prog=prog, scen=scen)
    return spec


def cases(tier):
    shapes = ["chain", "diamond", "fan", "state", "agg", "flowout"]
    yfs = [1.0, 0.5] if tier == "quick" else [1.0, 0.5, 2.0]
    dts = [1.0, 0.25] if tier == "quick" else [1.0, 0.25, 0.5, 1 / 12]
    scens = [None, ("data", "linear"), ("data", "previous"), ("fn", "linear")] + ([("fn", "previous")] if tier == "thorough" else [])
    for shape, dt, data, yf, myf, lim, prog, scen in itertools.product(shapes, dts, DATA, yfs, [1.0, 1.5], LIMITS, [False, True, "base"], scens):
        if prog == "base" and (scen is not None or (tier == "quick" and (lim not in ("none", "both") or data == "outside"))):
            continue
        if tier == "quick" and dt == 0.25 and (data in ("one",) or myf != 1.0):
            continue
        spec = model(shape, dt, data, yf, myf, lim, prog, scen)
        if spec is not None:
            yield spec
    # chained scenarios: a scenario with a LATER start year was applied to the parameter set first; the scenario under test covers its whole span,
    # so the parameter set under test carries exactly the values of the second scenario (and the function is suspended from ITS first year)
    for shape, dt, data, prog, scen in itertools.product(shapes, dts[:2], ["assume", "three"], [False, True], [("fn", "linear"), ("data", "linear"), ("fn", "previous")]):
        spec = model(shape, dt, data, 1.0, 1.0, "both", prog, scen)
        if spec is not None:
            b_ = spec["scen"][0]
            spec["scen_first"] = [dict(par=b_["par"], pop=b_["pop"], t=[S0 + 2.0, S0 + 2.5], y=[0.45, 0.3], interp=b_["interp"])]
            yield spec
    # other routes to an integrated model (pickled / deep-copied after building, as the optimiser does; quantities read before integration),
    # with an additional output-only parameter whose function depends on time alone
    for via in simspace.VIAS:
        for shape, dt, data, prog in itertools.product(shapes, dts[:2], ["assume", "three"], [False, True]):
            spec = model(shape, dt, data, 0.5, 1.5, "both", prog, None)
            if spec is not None:
                spec["pars"].append(dict(name="disc", fmt="number", fn="exp(-0.03*(t-2000))"))
                spec["pars"].append(dict(name="ddisc", fmt="number", fn="disc*2+dt"))
                spec["via"] = via
                yield spec
    # function parameters whose dependencies are changed by the initial junction flush: index 0 must be the function of the stored index-0 sizes
    for spec in simspace.junctions(tier):
        g = spec["gadget"]
        if g["psrc"] == "fn" and g["jinit"] and g["ok"]:
            spec["pars"].append(dict(name="fb", fmt="number", fn="b+2*c"))
            spec["c06"] = dict(shape="junction_flush")
            yield spec
    # "initial-size data are scaled by calibration factors in the same way": the initialisation cases of C07 that carry a calibration
    # factor (on a compartment, on a characteristic, on the denominator of a fraction, on the fraction itself) with consistent data
    from mc.props import c07

    for c in c07.cases(tier):
        if c["yf"] != 1.0 and c["data"] == "ok" and not c.get("t2"):
            yield dict(c06_init=c)


def run_case(spec):
    if "c06_init" in spec:
        from mc.props import c07

        res = c07.run_case(spec["c06_init"])
        for v in res["violations"]:
            v["key"] = "initial-size-calibration:" + v["key"]
        res["counters"] = {"initial_size_cases": 1}
        return res
    w, r = run_spec(spec)
    tr = refsim.simulate(spec)
    vs = conform.compare(tr, r, what=("t", "par", "comp", "link", "charac"))
    T = len(tr.t)
    varying = any(len({round(x, 12) for x in v if x is not None and x == x}) > 1 for v in tr.par.values())
    # every framework parameter must have been compared
    missing = [(pop.name, p.name) for pop in r.model.pops for p in pop.pars if (pop.name, p.name) not in tr.par or any(x is None for x in tr.par[(pop.name, p.name)])]
    if missing:
        from mc.runner import HarnessError

        raise HarnessError(f"reference did not produce values for {missing}")
    return dict(states=T, transitions=T - 1, traces=1, nontrivial=varying, violations=vs[:6], counters={"shape_" + spec["c06"]["shape"]: 1})
