"""C07 - initial state matches the databook or the run is refused; characteristic sums stay consistent"""

import itertools
import numpy as np
import atomica as at
from atomica.model import BadInitialization, SourceCompartment, SinkCompartment

from mc.oracles import V
from mc.build import World

LEVEL = "model_checking"
RULE = (
    "Compartments {a,b,c} (+ an initialised junction j feeding a and b) x every family of up to 3 characteristics out of {abc, ab, bc, b/abc, (ab)+c nested} x every choice of which compartments/characteristics are entered "
    "(over-, exactly- and under-determined systems) x data vector {consistent, off by 1e-7 / 1e-5 / 1 on one entry, implying a compartment of -1e-3 / -1, all zero} x calibration factor {1, 0.5} on one entered quantity; "
    "the build either raises the dedicated BadInitialization or starts from non-negative sizes reproducing every entered quantity to 1e-6; then every state (time index) of the run is checked for characteristic = sum(members)/denominator. "
    "Non-trivial = accepted over-determined systems and refused systems."
)
ASSUMPTIONS = [
    "the library accepts a solve residual of 1e-6 and clips compartments down to -1e-6 to zero; data implying a negative compartment of magnitude in (0, 1e-5) are outside the alphabet (the levels are -1e-3 and -1, which must be refused)",
    "'refused although a solution exists' is not flagged (the statement does not promise acceptance)",
    "two population types: a second type with two compartments and one characteristic in its own population (64 x 5 x data variants)",
    "the junction, when present, is entered directly (or defaults to 0) so that the post-redistribution target of every entered quantity is determined by the spec",
]
CASE_TIMEOUT = 60

TRUE = dict(a=50.0, b=30.0, c=20.0)
CH = dict(abc=(["a", "b", "c"], None), ab=(["a", "b"], None), bc=(["b", "c"], None), frac=(["b"], "abc"), nest=(["ab", "c"], None))
SHARE = dict(a=0.3, b=0.7)  # where the junction's initial contents go


def members(name, fam):
    """expand to compartments"""
    if name in ("a", "b", "c", "j"):
        return [name]
    out = []
    for m in CH[name][0]:
        out += members(m, fam)
    return out


def truth(name, x):
    return sum(x[m] for m in members(name, None))


def cases(tier):
    fams = [()]
    names = list(CH)
    for k in (1, 2, 3):
        for f in itertools.combinations(names, k):
            if "frac" in f and "abc" not in f:
                continue
            if "nest" in f and "ab" not in f:
                continue
            fams.append(f)
    datas = ["ok", "off1e-7", "off1e-5", "off1", "neg1e-3", "neg1", "zero"]
    for withj in (False, True):
        for fam in fams:
            for ecomps in itertools.product([False, True], repeat=3):
                for echar in itertools.product([False, True], repeat=len(fam)):
                    entered = [c for c, e in zip("abc", ecomps) if e] + [c for c, e in zip(fam, echar) if e]
                    if not entered:
                        continue
                    if "frac" in entered and "abc" not in entered:
                        continue
                    for data in datas:
                        if tier == "quick" and withj and data in ("off1e-7", "off1", "neg1"):
                            continue
                        for yf in (1.0, 0.5):
                            if tier == "quick" and yf != 1.0 and (data not in ("ok", "neg1e-3") or len(entered) > 3):
                                continue
                            yield dict(withj=withj, fam=list(fam), entered=entered, data=data, yf=yf)
    # calibration factor on the denominator / on the fraction itself; timed compartment with a non-integer number of steps; very large populations
    for fam in [f for f in fams if "frac" in f][:4]:
        for entered in (["abc", "frac"], ["a", "c", "abc", "frac"], ["abc", "frac", "a"]):
            for yf_on in ("denominator", "fraction"):
                for yf in (0.5, 2.0):
                    for data in ("ok", "off1", "neg1"):
                        yield dict(withj=False, fam=list(fam), entered=entered, data=data, yf=yf, yf_on=yf_on)
    for fam in fams[:10]:
        for entered in (["a", "b", "c"], ["b"] + [f for f in fam if f != "frac"][:1], ["a", "b", "c"] + [f for f in fam if f != "frac"]):
            if any(q not in ("a", "b", "c") and q not in fam for q in entered):
                continue
            for timedD in (1.1, 0.1, 0.5):
                for data in ("ok", "off1", "neg1e-3"):
                    yield dict(withj=False, fam=list(fam), entered=entered, data=data, yf=1.0, timedD=timedD)
    for fam in fams:
        for entered in (["a", "b", "c"], ["a", "b", "c"] + [f for f in fam]):
            if "frac" in entered and "abc" not in entered:
                continue
            yield dict(withj=False, fam=list(fam), entered=entered, data="ok", yf=1.0, scale="big")
            # the 1e-6 tolerance is absolute: small inconsistencies / implied negative compartments in a very large population
            for data in ("neg1e-3", "neg1", "off1e-5", "off1"):
                if data == "off1e-5" and len(entered) <= 3:
                    continue
                yield dict(withj=False, fam=list(fam), entered=entered, data=data, yf=1.0, scale="big")
    # declaration order and use: characteristics declared smallest first (a nested characteristic BEFORE the one it includes) and used by the function
    # of a transition parameter (so that they are evaluated during the run); data entered at years around the start year (linear interpolation)
    for fam in fams:
        ent = ["a", "b", "c"] + [f for f in fam if f != "frac" or "abc" in fam]
        for flags in (dict(rev_decl=True), dict(tv=True), dict(rev_decl=True, tv=True)):
            for data in ("ok", "off1", "neg1"):
                yield dict(withj=False, fam=list(fam), entered=ent, data=data, yf=1.0, **flags)
            if len(fam) >= 1:
                yield dict(withj=False, fam=list(fam), entered=[f for f in fam if f != "frac" or "abc" in fam] + ["a"], data="ok", yf=0.5, **flags)
    # compartments with a framework default of 0 and no databook entry ("zero defaults"); alternative definition of a characteristic under the same name
    for zd, entered in ((["c"], ["abc", "a"]), (["b", "c"], ["abc"]), (["c"], ["abc", "ab"]), (["a"], ["abc", "bc", "b"]), (["b"], ["abc", "a"])):
        fam = [q for q in entered if q not in ("a", "b", "c")]
        for data in ("ok", "neg1"):
            yield dict(withj=False, fam=fam, entered=entered, data=data, yf=1.0, zero_default=zd)
    for fam in fams:
        if "ab" in fam:
            for entered in (["a", "b", "c"] + [f for f in fam if f != "frac" or "abc" in fam], [f for f in fam if f != "frac" or "abc" in fam] + ["a"]):
                for data in ("ok", "off1"):
                    yield dict(withj=False, fam=list(fam), entered=entered, data=data, yf=1.0, alt_def=True)
    # other routes to an integrated model: built model pickled / deep-copied and the copy integrated; every quantity read before integration
    for fam in fams:
        for via in ("pickle", "deepcopy", "read_first"):
            for withj in (False, True):
                yield dict(withj=withj, fam=list(fam), entered=["a", "b", "c"] + [f for f in fam if f != "frac" or "abc" in fam], data="ok", yf=1.0, via=via)
    # several population types: a second type (compartments x, y, characteristic xy) in its own population
    for fam in fams[:8]:
        for entered in (["a", "b", "c"], ["abc"] if "abc" in fam else ["a"], ["a", "b", "c"] + [f for f in fam if f != "frac"]):
            if any(q not in ("a", "b", "c") and q not in fam for q in entered):
                continue
            for e2 in (["x", "y"], ["xy"], ["x", "y", "xy"], ["x", "xy"]):
                for d2 in ("ok", "off1e-5", "off1", "neg1e-3", "neg1"):
                    for data in ("ok", "neg1") if tier == "quick" else ("ok", "off1", "neg1e-3", "neg1"):
                        yield dict(withj=False, fam=list(fam), entered=entered, data=data, yf=1.0, t2=dict(entered=e2, data=d2))


def make_spec(case):
    fam, entered, data, yf = case["fam"], case["entered"], case["data"], case["yf"]
    x = dict(TRUE)
    if case.get("scale") == "big":
        x = dict(a=5e7, b=20.0, c=1e6)  # a fraction far below 1e-6 whose numerator is an ordinary count
    if data == "zero":
        x = dict(a=0.0, b=0.0, c=0.0)
    vals = {}
    for q in entered:
        if q == "frac":
            vals[q] = (x["b"] / (x["a"] + x["b"] + x["c"])) if (x["a"] + x["b"] + x["c"]) > 0 else 0.0
        else:
            vals[q] = truth(q, x)
    tgt = entered[-1]
    if data.startswith("off"):
        d = float(data[3:])
        vals[tgt] = vals[tgt] + (d if tgt != "frac" else d / 100.0)
    elif data.startswith("neg"):
        d = float(data[3:])
        # make one compartment negative by d: lower an aggregate below the sum of its entered parts, or enter a negative compartment
        if tgt in ("a", "b", "c"):
            vals[tgt] = -d
        elif tgt == "frac":
            vals[tgt] = -d / 100.0
        else:
            parts = [m for m in members(tgt, None)]
            vals[tgt] = truth(tgt, x) - x[parts[-1]] - d if all(p in entered for p in parts[:-1]) and parts[-1] not in entered else vals[tgt]
            if vals[tgt] == truth(tgt, x):
                vals[tgt] = -d
    # the calibration factor is applied to the first entered quantity; the entered value is divided so that the product is the intended value
    first = entered[0]
    if case.get("yf_on") == "denominator":
        first = "abc"
    elif case.get("yf_on") == "fraction":
        first = "frac"
    spec = dict(
        comps=[dict(name=n, kind="ord") for n in "abc"],
        pars=[dict(name="r1", fmt="rate", val=0.4), dict(name="r2", fmt="rate", val=0.6)],
        links=[["a", "b", "r1"], ["b", "c", "r2"]],
        characs=[],
        pops=["pa"],
        sim=[2000.0, 2002.0, 0.25],
        cascades={"main": [("everyone", "a,b,c")]},
    )
    for c in spec["comps"]:
        if c["name"] in case.get("zero_default", []):
            c["default"] = 0  # no databook entry: the framework says the compartment starts empty
        if c["name"] in vals:
            c["init"] = vals[c["name"]] / (yf if c["name"] == first else 1.0)
            if c["name"] == first and yf != 1.0:
                c["yf"] = yf
    for name in CH:
        if name in fam:
            comps_, den = CH[name]
            ch = dict(name=name, comps=list(comps_), denom=den)
            if name in vals:
                ch["val"] = vals[name] / (yf if name == first else 1.0)
                if name == first and yf != 1.0:
                    ch["yf"] = yf
            spec["characs"].append(ch)
    # declaration order: larger characteristics first (rev_decl: nested characteristics before the ones they include, fractions before their denominator)
    order = ["abc", "ab", "bc", "nest", "frac"]
    if case.get("rev_decl"):
        order = ["frac", "nest", "bc", "ab", "abc"]
    spec["characs"].sort(key=lambda c: order.index(c["name"]))
    if case.get("rev_decl") and spec["characs"]:
        # every characteristic takes part in the function of a transition parameter, multiplied by zero: the dynamics are unchanged, but the
        # characteristics have to be evaluated at every step
        expr = "+".join(c["name"] for c in spec["characs"])
        for p_ in spec["pars"]:
            if p_["name"] == "r1":
                p_["fn"] = f"0.4+0*({expr})"
                p_["val"] = None
        # ... and is exposed as an output parameter, so that the value the functions see can be compared with the members as well
        for c_ in spec["characs"]:
            if c_["name"] != "frac":
                spec["pars"].append(dict(name="seen_" + c_["name"], fmt="number", fn=c_["name"]))
    if case.get("tv"):
        # the entered values are given for the years around the start year; the value at the start year is the linear interpolation (= the intended value)
        spec["years"] = [1999.0, 2001.0]
        for it in spec["comps"] + spec["characs"]:
            for key in ("init", "val"):
                if isinstance(it.get(key), (int, float)):
                    it[key] = {"t": [1999.0, 2001.0], "v": [it[key] * 0.5, it[key] * 1.5]}
    if case.get("timedD"):
        # b becomes a timed compartment: its outflow to c is driven by a timed duration parameter
        spec["pars"] = [p for p in spec["pars"] if p["name"] != "r2"] + [dict(name="r2", fmt="duration", val=case["timedD"], timed=True)]
    vals2 = {}
    if case.get("t2"):
        t2 = case["t2"]
        x2 = dict(x=7.0, y=3.0)
        for q in t2["entered"]:
            vals2[q] = x2["x"] + x2["y"] if q == "xy" else x2[q]
        tgt2 = t2["entered"][-1]
        if t2["data"].startswith("off"):
            vals2[tgt2] += float(t2["data"][3:])
        elif t2["data"].startswith("neg"):
            d = float(t2["data"][3:])
            if tgt2 == "xy" and "x" in t2["entered"]:
                vals2["xy"] = vals2["x"] - d  # implies y = -d
            else:
                vals2[tgt2] = -d
        spec["ptypes"] = ["ta", "tb"]
        spec["pops"] = ["pa", "pb"]
        spec["pop_types"] = {"pa": "ta", "pb": "tb"}
        for it in spec["comps"] + spec["characs"] + spec["pars"]:
            it["ptype"] = "ta"
        spec["comps"] += [dict(name="x", kind="ord", ptype="tb", **({"init": vals2["x"]} if "x" in vals2 else {})), dict(name="y", kind="ord", ptype="tb", **({"init": vals2["y"]} if "y" in vals2 else {}))]
        spec["characs"].append(dict(name="xy", comps=["x", "y"], ptype="tb", **({"val": vals2["xy"]} if "xy" in vals2 else {})))
        spec["pars"].append(dict(name="r3", fmt="rate", val=0.5, ptype="tb"))
        spec["links"].append(["x", "y", "r3"])
    spec["_vals2"] = vals2
    if case.get("via"):
        spec["via"] = case["via"]
    if case["withj"]:
        spec["comps"].append(dict(name="j", kind="junc", init=10.0))
        spec["pars"] += [dict(name="tj", fmt="rate", val=0.2), dict(name="qa", fmt="proportion", val=0.3), dict(name="qb", fmt="proportion", val=0.7)]
        spec["links"] += [["c", "j", "tj"], ["j", "a", "qa"], ["j", "b", "qb"]]
    return spec, vals


def run_case(case):
    if case.get("alt_def"):
        # two frameworks with the same code names but different definitions of a characteristic, built one after the other in this process:
        # first the usual definition (ab = a + b), then the alternative one (ab = a + c) - the second must be initialised by ITS definition
        twin = {k: v for k, v in case.items() if k != "alt_def"}
        _run_case(twin)
        old = CH["ab"]
        CH["ab"] = (["a", "c"], None)
        try:
            return _run_case(twin)
        finally:
            CH["ab"] = old
    return _run_case(case)


def _run_case(case):
    spec, vals = make_spec(case)
    vs = []
    j0 = 10.0 if case["withj"] else 0.0
    try:
        w = World(spec)
        r = w.run(progs=False)
    except BadInitialization:
        return dict(states=1, transitions=0, nontrivial=True, violations=[], outcome="refused", counters=dict(refused=1))
    m = r.model
    pop = m.pops[0]
    T = len(m.t)
    x0 = {c.name: float(np.asarray(c.vals)[0]) for c in pop.comps}
    for n, v in x0.items():
        if v < 0 or not np.isfinite(v):
            vs.append(V("negative-initial-compartment", f"{case}: compartment {n} starts at {v!r}", None))
    tol = 1e-6 * (1 + 1e-6)
    for n_ in case.get("zero_default", []):
        if abs(x0[n_]) > tol:
            vs.append(V("zero-default-not-honoured", f"{case}: compartment {n_} has the framework default 0 (no databook entry) but the run starts with {x0[n_]!r}", None))
    for q, val in vals.items():
        mem = members(q, None)
        got = sum(x0[mm] for mm in mem)
        if q == "frac":
            exp = val * vals["abc"]
        else:
            exp = val
        # redistribution of the junction's initial contents (C04)
        exp_post = exp + j0 * sum(SHARE.get(mm, 0.0) for mm in mem)
        if abs(got - exp_post) > tol:
            vs.append(V("initial-state-differs-from-databook", f"{case}: entered {q} = {val!r} (target {exp_post!r} after junction redistribution) but the run starts with {got!r}", dict(quantity=q)))
    if case.get("t2"):
        pb = m.pops[1]
        y0 = {c.name: float(np.asarray(c.vals)[0]) for c in pb.comps}
        for n, v in y0.items():
            if v < 0 or not np.isfinite(v):
                vs.append(V("negative-initial-compartment", f"{case}: compartment {n} of the second population type starts at {v!r}", None))
        for q, val in spec["_vals2"].items():
            got = y0["x"] + y0["y"] if q == "xy" else y0[q]
            if abs(got - val) > tol:
                vs.append(V("initial-state-differs-from-databook", f"{case}: second population type: entered {q} = {val!r} but the run starts with {got!r}", dict(quantity=q)))
        xy = np.asarray(pb.get_charac("xy").vals, dtype=float)
        if not np.allclose(xy, np.asarray(pb.get_comp("x").vals) + np.asarray(pb.get_comp("y").vals), rtol=1e-9, atol=1e-12):
            vs.append(V("characteristic-not-sum-of-members", f"{case}: xy is not x + y in the second population type", None))
        if any(c.name in ("x", "y") for c in pop.comps) or any(c.name in ("a", "b", "c") for c in pb.comps):
            vs.append(V("population-type-mixup", f"{case}: a population contains compartments of the other population type", None))
    # characteristic consistency on every state
    for ch in pop.characs:
        cv = np.asarray(ch.vals, dtype=float)
        mem = members(ch.name, None)
        num = sum(np.asarray(pop.get_comp(mm).vals, dtype=float) for mm in mem)
        den_name = CH[ch.name][1]
        if den_name:
            den = sum(np.asarray(pop.get_comp(mm).vals, dtype=float) for mm in members(den_name, None))
            with np.errstate(all="ignore"):
                exp = np.where(num < 1e-6, 0.0, np.where(den > 0, num / np.where(den > 0, den, 1.0), np.inf))
        else:
            exp = num
        if not np.allclose(cv, exp, rtol=1e-9, atol=1e-12):
            i = int(np.argmax(~np.isclose(cv, exp, rtol=1e-9, atol=1e-12)))
            vs.append(V("characteristic-not-sum-of-members", f"{case}: {ch.name} at index {i} is {cv[i]!r}, members give {exp[i]!r}", None))
    for p_ in pop.pars:
        if p_.name.startswith("seen_"):
            mem = members(p_.name[5:], None)
            num = sum(np.asarray(pop.get_comp(mm).vals, dtype=float) for mm in mem)
            pv = np.asarray(p_.vals, dtype=float)
            if not np.allclose(pv, num, rtol=1e-9, atol=1e-9):
                i = int(np.argmax(~np.isclose(pv, num, rtol=1e-9, atol=1e-9)))
                vs.append(V("characteristic-seen-by-functions-not-sum-of-members", f"{case}: a function reading {p_.name[5:]} at index {i} sees {pv[i]!r}, its members hold {num[i]!r}", None))
    over = len(vals) > 3
    return dict(states=T, transitions=T - 1, nontrivial=over, violations=vs[:5], outcome="accepted", counters=dict(accepted=1, accepted_overdetermined=int(over)))
