"""C08 - simulation is deterministic, leaves its inputs untouched, and survives copying"""

import copy
import hashlib
import itertools
import json
import os
import pickle
import subprocess
import sys
import tempfile
import numpy as np
import sciris as sc
import atomica as at

from mc import simspace
from mc.oracles import V
from mc.build import World
from mc.snapshot import snap_hash, snap, diff
from mc.props import c06
from mc.props.c09 import arrays

LEVEL = "model_checking"
RULE = (
    "Explicit-state exploration over call histories: ALL sequences up to depth 2 (quick) / 3 (thorough) over the operation alphabet {run A, run A with programs, run B, run A twice from a parameter set that carries a saved state, run a project whose framework is an edited copy of A's (closed-form oracle for the edited function), build A's model then deep-copy and process, "
    "build then pickle round-trip and process, deep-copy a result, save+load a result, parameter scenario on A, sampled run with zero uncertainty, one-iteration optimisation of A, calibration of B with maxiters=1} on two different generated projects "
    "(no state deduplication: hidden global state is exactly what is being looked for). Invariants after EVERY operation: (i) its outputs are bit-identical to the outputs of the same operation from the initial state, "
    "(ii) the full structural snapshot of every input object (parameter sets, program set, instructions, frameworks, data, settings of both projects) is unchanged, (iii) copy / pickle / save-load variants equal the original. "
    "Fresh-process clause: the same digests are recomputed in sub-processes with different PYTHONHASHSEED values."
)
ASSUMPTIONS = [
    "two generated projects (7-compartment 2-population model with programs; 2-population aggregation model); frameworks whose functions call random generators are excluded by the property",
    "the fresh-process clause is repetition under varied hash seeds (there is no finite space of processes to enumerate)",
    "volatile metadata (uid, creation time, version stamp) is excluded from OUTPUT digests but not from input snapshots",
]
CASE_TIMEOUT = 900

OPS = ["runA", "runAp", "runB", "runA_init", "runA_edited", "copyA", "pickleA", "dcp_result", "saveload", "scenA", "sampled0", "optimA", "optim_refused", "calibB"]


class Ctx:
    def __init__(self):
        a = simspace.combined_spec(0.25, v=0.3, dur=1.0, tj=0.2, pa=0.3, d=0.01, br=5.0, prog=True)
        for p in a["pars"]:
            if p["name"] == "vr":
                p["sigma"] = 0.0
        # output-only parameters whose functions depend on time / constants only (no model quantity)
        a["pars"] += [dict(name="tt", fmt=None, fn="0.01*(t-2000)"), dict(name="kk", fmt=None, fn="0.5*dt"), dict(name="uu", fmt=None, fn="tt+sus/100")]
        # a program whose coverage denominator sums eight compartments (2 populations x 4 compartments): the order of that sum must not depend on hashing
        a["progs"]["progs"].append(dict(name="P3", pops=["pa1", "pb1"], comps=["sus", "vac", "ca", "cb"], spend=250.0, uc=15.0, oneoff=True))
        a["progs"]["covouts"][1]["progs"]["P3"] = 0.7
        self.A = World(a)
        self.A.P.progsets.append(self.A.progset)  # registered with the project (run_optimization looks it up there)
        # a parameter set carrying an explicit initialisation (saved state of a previous run)
        r = self.A.P.run_sim(self.A.parset, store_results=False)
        self.A_init = sc.dcp(self.A.parset)
        self.A_init.set_initialization(r, float(r.model.t[4]))
        self.B = World(c06.model("agg", 0.25, "three", 0.5, 1.5, "none", False, None))

    def inputs(self):
        out = {}
        for nm, w in (("A", self.A), ("B", self.B)):
            out[nm + ".parset"] = w.parset
            out[nm + ".progset"] = w.progset
            out[nm + ".instr"] = w.instr
            out[nm + ".framework"] = w.F
            out[nm + ".data"] = w.D
            out[nm + ".settings"] = w.P.settings
        out["A.parset_with_initialization"] = self.A_init
        return out


def dig(x):
    """digest of all output arrays of a Result or processed Model: the stored arrays, and what the by-name accessors report (every compartment,
    characteristic and parameter by its name, every flow as 'parameter:flow' and 'source:destination')"""
    m = x if isinstance(x, at.Model) else x.model
    h = hashlib.sha256()
    for pop in m.pops:
        for v in pop.comps + pop.characs + pop.pars + pop.links:
            h.update(np.ascontiguousarray(np.asarray(v.vals, dtype=float)).tobytes())
        names = [v.name for v in pop.comps + pop.characs + pop.pars]
        names += [v.name + ":flow" for v in pop.pars if v.links]
        names += sorted({f"{l.source.name}:{l.dest.name}" for l in pop.links if l.dest.pop is pop})
        for nm in names:
            got = pop.get_variable(nm)
            h.update(f"{nm}#{len(got)}".encode())
            tot = sum(np.asarray(g.vals, dtype=float) for g in got)
            h.update(np.ascontiguousarray(tot).tobytes())
    return h.hexdigest()[:16]


def A_init_year(ctx):
    return ctx.A_init.initialization.year


def apply_op(ctx, op):
    """returns {label: digest} of everything the operation produced"""
    A, B = ctx.A, ctx.B
    out = {}
    if op == "runA":
        out["A"] = dig(A.P.run_sim(A.parset, store_results=False))
    elif op == "runAp":
        out["Ap"] = dig(A.P.run_sim(A.parset, A.progset, A.instr, store_results=False))
    elif op == "runA_init":
        s0 = A.P.settings.sim_start
        A.P.settings.update_time_vector(start=float(A_init_year(ctx)))
        try:
            out["A_init"] = dig(A.P.run_sim(ctx.A_init, store_results=False))
            out["A_init#again"] = dig(A.P.run_sim(ctx.A_init, A.progset, A.instr, store_results=False))
        finally:
            A.P.settings.update_time_vector(start=s0)
    elif op == "runB":
        out["B"] = dig(B.P.run_sim(B.parset, store_results=False))
    elif op == "runA_edited":
        # a copy of A's framework (same uid) in which the function of the output parameter tt is edited: the run must use the edited function
        F2 = sc.dcp(A.F)
        F2.pars.at["tt", "function"] = "0.02*(t-2000)"
        P2 = at.Project(framework=F2, databook=sc.dcp(A.D), do_run=False)
        P2.settings = sc.dcp(A.P.settings)
        r2 = P2.run_sim(P2.parsets[0], store_results=False)
        out["A2"] = dig(r2)
        tt = np.asarray(r2.model.pops[0].get_par("tt").vals, dtype=float)
        exp = 0.02 * (np.asarray(r2.model.t) - 2000)
        out["A2#closed-form"] = "ok" if np.allclose(tt, exp, rtol=1e-12, atol=1e-15) else f"tt = {tt[:3].tolist()}..., the edited function gives {exp[:3].tolist()}..."
    elif op in ("copyA", "pickleA"):
        m = at.Model(A.P.settings, A.F, A.parset, A.progset, A.instr)
        m2 = copy.deepcopy(m) if op == "copyA" else pickle.loads(pickle.dumps(m))
        m2.process()
        out["Ap"] = dig(m2)  # (iii) a copied / unpickled model gives the same outputs as a direct run
        m.process()
        out["Ap#orig"] = dig(m)
        m3 = pickle.loads(pickle.dumps(m2))  # copying a processed model keeps its outputs
        out["Ap#copy-of-processed"] = dig(m3)
    elif op == "dcp_result":
        r = A.P.run_sim(A.parset, A.progset, A.instr, store_results=False)
        out["Ap"] = dig(sc.dcp(r))
        out["Ap#orig"] = dig(r)
    elif op == "saveload":
        r = A.P.run_sim(A.parset, A.progset, A.instr, store_results=False)
        d = tempfile.mkdtemp(prefix="c08_", dir="/dev/shm" if os.path.isdir("/dev/shm") else None)
        try:
            fn = os.path.join(d, "r.obj")
            sc.save(fn, r)
            out["Ap"] = dig(sc.load(fn))
        finally:
            import shutil

            shutil.rmtree(d, ignore_errors=True)
    elif op == "scenA":
        s = at.ParameterScenario(name="s")
        s.add("vr", "pa1", [2001.0, 2002.0], [0.6, 0.1])
        out["scenA"] = dig(s.run(A.P, A.parset, store_results=False))
    elif op == "sampled0":
        np.random.seed(3)
        res = A.P.run_sampled_sims(A.parset, A.progset, A.instr, n_samples=1)
        out["Ap"] = dig(res[0][0])
    elif op == "optimA":
        adj = [at.SpendingAdjustment("P1", 2001.0, "abs", 0, 5000), at.SpendingAdjustment("P2", 2001.0, "abs", 0, 5000)]
        opt = at.Optimization(adjustments=adj, measurables=[at.MaximizeMeasurable("vac", [2001, 2004])], constraints=[at.TotalSpendConstraint()], maxiters=1, maxtime=1e9)
        ins = at.optimize(A.P, opt, A.parset, A.progset, A.instr, optim_args=dict(randseed=1))
        out["optimA"] = snap_hash(ins)
    elif op == "optim_refused":
        # an optimisation registered with the project that cannot be started (its spending constraint is unsatisfiable) and is run over a
        # shorter horizon than the project's: the refusal must leave the project as it was
        from mc.props.c15 import _OptimIns

        adj = [at.SpendingAdjustment("P1", 2001.0, "abs", 100.0, 5000.0), at.SpendingAdjustment("P2", 2001.0, "abs", 100.0, 5000.0)]
        opt = at.Optimization(adjustments=adj, measurables=[at.MaximizeMeasurable("vac", [2001, 2002])], constraints=[at.TotalSpendConstraint(total_spend=[10.0], t=[2001.0])], maxiters=1, maxtime=1e9)
        A.P.optims["refused"] = _OptimIns(opt, A.instr, end_year=2002.0)
        try:
            A.P.run_optimization("refused", maxiters=1, store_results=False)
            out["optim_refused"] = "completed"
        except Exception as e:  # noqa
            out["optim_refused"] = type(e).__name__
        finally:
            A.P.optims.pop("refused")
    elif op == "calibB":
        ps = B.P.calibrate(B.parset, adjustables=["p1"], measurables=["a"], max_time=1e9, maxiters=1, randseed=1)
        out["calibB"] = snap_hash({k: (p.y_factor, p.meta_y_factor) for k, p in ps.pars.items()})
    return out


_REF = {}


def reference():
    if not _REF:
        for op in OPS:
            _REF[op] = apply_op(Ctx(), op)
    return _REF


def cases(tier):
    depth = 2 if tier == "quick" else 3
    for d in range(1, depth + 1):
        for h in itertools.product(OPS, repeat=d):
            if d == 3 and not ({"optimA", "calibB", "copyA", "pickleA", "scenA", "sampled0"} & set(h[:2])):
                continue
            yield dict(kind="history", hist=list(h))
    yield dict(kind="fresh")


def run_history(case):
    ref = reference()
    ctx = Ctx()
    inputs = ctx.inputs()
    h0 = {k: snap_hash(v) for k, v in inputs.items()}
    s0 = {k: snap(v) for k, v in inputs.items()}
    vs = []
    for i, op in enumerate(case["hist"]):
        got = apply_op(ctx, op)
        prefix = case["hist"][: i + 1]
        for label, d in got.items():
            base = label.split("#")[0]
            if label.endswith("#closed-form") and d != "ok":
                vs.append(V("edited-framework-not-used", f"after {prefix}: {op}: {d}", dict(hist=prefix)))
            exp = ref[op].get(label)
            if exp is None or d != exp:
                vs.append(V("output-depends-on-history", f"after {prefix}: output {label} of {op} has digest {d}, from the initial state it has {exp}", dict(hist=prefix)))
            # (iii) variants equal the plain run of the same configuration
            plain = {"A": ref["runA"]["A"], "Ap": ref["runAp"]["Ap"], "B": ref["runB"]["B"]}.get(base)
            if plain is not None and d != plain:
                vs.append(V("variant-differs-from-plain-run", f"after {prefix}: {label} produced by {op} differs from a plain run of the same configuration", dict(hist=prefix)))
        for k, v in inputs.items():
            if snap_hash(v) != h0[k]:
                vs.append(V("input-modified", f"after {prefix}: {k} changed: {diff(s0[k], snap(v))[:2]}", dict(hist=prefix, obj=k)))
                h0[k] = snap_hash(v)
        if len(vs) >= 3:
            break
    return dict(states=len(case["hist"]) + 1, transitions=len(case["hist"]), nontrivial=len(case["hist"]) > 1, violations=vs[:3], counters=dict(histories=1))


FRESH = r"""
import sys, json
sys.path.insert(0, %r)
from mc.props import c08
ctx = c08.Ctx()
print("DIGESTS " + json.dumps({op: c08.apply_op(c08.Ctx(), op) for op in ("runA", "runAp", "runB", "scenA", "copyA", "runA_init")}))
"""


def run_fresh(case):
    ref = reference()
    root = os.path.dirname(os.path.dirname(os.path.dirname(os.path.abspath(__file__))))
    vs = []
    n = 0
    for seed in ("1", "2", "12345"):
        env = dict(os.environ, PYTHONHASHSEED=seed, MPLBACKEND="agg")
        p = subprocess.run([sys.executable, "-c", FRESH % root], capture_output=True, text=True, env=env, timeout=600)
        line = [l for l in p.stdout.splitlines() if l.startswith("DIGESTS ")]
        if not line:
            from mc.runner import HarnessError

            raise HarnessError("fresh-process run produced no digests:\n" + p.stderr[-800:])
        got = json.loads(line[0][8:])
        n += 1
        for op, d in got.items():
            if d != ref[op]:
                vs.append(V("fresh-process-differs", f"PYTHONHASHSEED={seed}: {op} gives {d} in a fresh process, {ref[op]} in this one", None))
    return dict(states=n, transitions=n, nontrivial=True, violations=vs[:3], counters=dict(fresh_processes=n))


def run_case(case):
    return run_fresh(case) if case["kind"] == "fresh" else run_history(case)
