"""C17 - sampled runs are independent draws, serial or parallel, and do not alter sources"""

import copy
import hashlib
import itertools
import os
import numpy as np
import atomica as at

from mc import simspace
from mc.oracles import V
from mc.build import World
from mc.snapshot import snap_hash
from mc.vpool import virtual_pools, schedules
from mc.props.c09 import arrays

LEVEL = "model_checking"
RULE = (
    "Schedule enumeration on a virtual fork pool (mc/vpool.py): uncertain quantity {databook sigma, program spending sigma, unit-cost sigma, outcome sigma with explicit interaction outcomes, sigma 0, sigma None} "
    "x N = 2..5 samples x {serial, parallel with W = 1..4 workers} x EVERY assignment of samples to workers up to worker renaming (set partitions of N jobs into <= W blocks) "
    "x prior state of the global generator {seed 0, seed 1, seed 0 after 7 draws} x entry point {Project.run_sampled_sims, Ensemble.run_sims}; "
    "oracle per schedule: pairwise-distinct samples unless there is no uncertainty, sources snapshot-equal before/after, no-uncertainty samples equal the unsampled run bit-for-bit. "
    "One real multiprocessing run per tier binds the fork model to the OS (equality pattern must agree). states = executed schedules, transitions = sampled simulations."
)
ASSUMPTIONS = [
    "the OS scheduler itself is not enumerated: the virtual pool enumerates the assignment space; real runs (N=W=4 and N=8, W=2) check that the fork model predicts the real equality pattern",
    "bounds: N <= 5 (quick) / 6 (thorough), W <= 4: a duplicate needs two jobs on two workers, which every larger schedule contains",
    "tasks are shipped by pickling and run in submission order on their worker, as multiprocessing.pool.Pool does",
]
CASE_TIMEOUT = 900
MAX_JOBS = 16

VARIANTS = ["databook", "databook_years", "databook_const_and_years", "databook_zero_constant", "transfer", "interaction", "spend", "unitcost", "outcome_interaction", "interaction_outcome_fullcov", "zero", "zero_saved_state", "none"]


def make_world(variant):
    if variant == "interaction":
        # uncertainty only on an interaction weight (2-population aggregation model)
        from mc.props import c06

        spec = c06.model("agg", 0.25, "three", 1.0, 1.0, "none", True, None)
        spec["interactions"][0]["sigma"] = 0.2
        return World(spec)
    spec = simspace.combined_spec(0.25)
    if variant == "transfer":
        spec["transfers"][0]["sigma"] = 0.03  # uncertainty only on the transfer row
    if variant == "interaction_outcome_fullcov":
        # both programs at full coverage: only the explicitly specified outcome of the combination matters
        spec["progs"]["covouts"][0]["sigma"] = 0.02
        spec["progs"]["covouts"][0]["imp"] = "P1+P2=0.9"
        spec["progs"]["covouts"][1]["sigma"] = None
        spec["progs"]["instr"]["coverage"] = {"P1": 4.0, "P2": 4.0}  # per year; one-off programs: x dt = 1.0 per step
    for p in spec["pars"]:
        if p["name"] == "vr":
            p["sigma"] = {"databook": 0.05, "zero": 0.0, "zero_saved_state": 0.0, "databook_years": 0.05, "databook_const_and_years": 0.05}.get(variant)
            if variant in ("databook_years", "databook_const_and_years"):
                p["val"] = {"t": [2000.0, 2002.0], "v": [0.3, 0.2]}  # the only uncertain row has year-specific values
    if variant == "databook_zero_constant":
        # the only uncertain quantity is entered as the constant 0 (an output-only quantity without limits, so that every draw is visible in the result)
        spec["pars"].append(dict(name="zz", fmt="number", val=0.0, sigma=0.05))
    if variant == "spend":
        spec["progs"]["progs"][0]["spend_sigma"] = 100.0
    if variant == "unitcost":
        spec["progs"]["progs"][1]["uc_sigma"] = 3.0
    if variant == "outcome_interaction":
        spec["progs"]["covouts"][0]["sigma"] = 0.05
        spec["progs"]["covouts"][0]["imp"] = "P1+P2=0.95"
    if variant in ("zero", "zero_saved_state"):
        spec["progs"]["covouts"][0]["imp"] = "P1+P2=0.95"  # valid program book with explicit interaction outcomes and zero uncertainty
    w = World(spec)
    if variant == "databook_const_and_years":
        # ... and a constant as well (a valid row: the year values are used, the constant is shown as ignored)
        for obj in (w.parset.pars["vr"], ):
            for ts in obj.ts.values():
                ts.assumption = 0.25
        for ts in w.D.tdve["vr"].ts.values():
            ts.assumption = 0.25
    if variant == "none":
        for cv in w.progset.covouts.values():
            cv.sigma = None
    if variant == "zero_saved_state":
        # the parameter set carries the saved state of an earlier run and the project starts from that year
        r = w.P.run_sim(w.parset, w.progset, w.instr, store_results=False)
        y = float(r.model.t[4])
        w.parset.set_initialization(r, y)
        w.P.settings.update_time_vector(start=y)
    return w


def digest(res):
    r = res[0] if isinstance(res, list) else res
    h = hashlib.sha256()
    a = arrays(r)
    for k in sorted(a, key=str):
        h.update(np.ascontiguousarray(a[k]).tobytes())
    return h.hexdigest()[:16]


def ens_map(results, **kwargs):
    r = results[0] if isinstance(results, list) else results
    if "sus" in r.model.pops[0].comp_lookup:
        return at.PlotData(results, outputs=["sus", "vac", "ca"], pops=["pa1", "pb1"])
    return at.PlotData(results, outputs=["a", "b", "c"], pops=["pa", "pb"])


def ens_digest(pd_):
    h = hashlib.sha256()
    for s in pd_.series:
        h.update(np.ascontiguousarray(s.vals).tobytes())
    return h.hexdigest()[:16]


def set_prior(prior):
    if prior == "seed0":
        np.random.seed(0)
    elif prior == "seed1":
        np.random.seed(1)
    else:
        np.random.seed(0)
        np.random.randn(7)


def cases(tier):
    nmax = 5 if tier == "quick" else 6
    for variant in VARIANTS:
        for entry in ("project", "ensemble"):
            for prior in ("seed0", "seed1", "seed0+7"):
                for N in range(2, nmax + 1):
                    for W in (0, 1, 2, 3, 4):  # 0 = serial
                        if tier == "quick" and entry == "ensemble" and (N > 4 or prior == "seed1"):
                            continue
                        if variant == "databook_zero_constant" and entry == "ensemble":
                            continue  # the ensemble's mapping function does not look at the output-only quantity
                        yield dict(kind="virtual", variant=variant, entry=entry, prior=prior, N=N, W=W)
    for entry in ("project", "ensemble"):
        for N in (2, 3, 4):
            for W in (0, 1, 2, 3):
                yield dict(kind="retry", variant=VARIANTS[0], entry=entry, prior="seed0", N=N, W=W, dev=1 if tier == "quick" else 2)
    for entry in ("project", "ensemble"):
        for N in (2, 3):
            for W in (0, 1, 2):
                yield dict(kind="resample", entry=entry, N=N, W=W)
    yield dict(kind="real", N=4, W=4)
    yield dict(kind="real", N=8, W=2)
    yield dict(kind="fork")


def one_execution(w, entry, N, W, sched):
    if entry == "project":
        if W == 0:
            res = w.P.run_sampled_sims(w.parset, w.progset, w.instr, n_samples=N, parallel=False)
        else:
            with virtual_pools(sched):
                res = w.P.run_sampled_sims(w.parset, w.progset, w.instr, n_samples=N, parallel=True, num_workers=W)
        return [digest(r) for r in res]
    else:
        ens = at.Ensemble(mapping_function=ens_map)
        if W == 0:
            ens.run_sims(w.P, w.parset, w.progset, w.instr, n_samples=N, parallel=False)
        else:
            with virtual_pools(sched, n_workers_for_parallelize=W):
                ens.run_sims(w.P, w.parset, w.progset, w.instr, n_samples=N, parallel=True)
        return [ens_digest(s) for s in ens.samples]


def run_virtual(case):
    variant, entry, N, W = case["variant"], case["entry"], case["N"], case["W"]
    w = make_world(variant)
    uncertain = variant not in ("zero", "zero_saved_state", "none")
    vs = []
    h0 = (snap_hash(w.parset), snap_hash(w.progset), snap_hash(w.instr))
    if not uncertain:
        base = w.P.run_sim(w.parset, w.progset, w.instr, store_results=False)
        base_d = digest(base) if entry == "project" else ens_digest(ens_map([base]))
    scheds = [None] if W == 0 else list(schedules(N, W))
    nexec = nsims = 0
    patterns = set()
    for sched in scheds:
        set_prior(case["prior"])
        ds = one_execution(w, entry, N, W, sched)
        nexec += 1
        nsims += N
        lab = f"{variant} {entry} N={N} " + ("serial" if W == 0 else f"W={W} schedule={list(sched)}") + f" prior={case['prior']}"
        if len(ds) != N:
            vs.append(V("wrong-number-of-samples", f"{lab}: {len(ds)} samples returned", None))
        pat = tuple(ds.index(d) for d in ds)
        patterns.add(pat)
        if uncertain and len(set(ds)) < len(ds):
            dup = [i for i, d in enumerate(ds) if ds.index(d) != i]
            vs.append(V("duplicate-samples", f"{lab}: samples {[(ds.index(ds[i]), i) for i in dup]} are identical (equality pattern {list(pat)})", dict(schedule=sched and list(sched))))
        if not uncertain and any(d != base_d for d in ds):
            vs.append(V("no-uncertainty-differs-from-unsampled", f"{lab}: a sampled run with no uncertainty differs from the unsampled run", None))
        if (snap_hash(w.parset), snap_hash(w.progset), snap_hash(w.instr)) != h0:
            vs.append(V("sampling-altered-source", f"{lab}: the source parameter set / program set / instructions changed", None))
            break
        if len(vs) >= 3:
            break
    return dict(states=nexec, transitions=nsims, traces=nexec, nontrivial=(W >= 2), violations=vs[:3], outcome=sorted(patterns)[0] if patterns else None, counters=dict(schedules=nexec, sampled_sims=nsims))


class fail_initialisation:
    """environment answer under the explorer's control: the k-th simulation attempt of the execution (k in `which`) is refused with BadInitialization,
    as happens when a draw implies negative compartments; the library then draws again for that sample"""

    def __init__(self, which):
        self.which = set(which)
        self.k = 0

    def __enter__(self):
        import atomica.project as ap
        from atomica.model import BadInitialization

        self.ap = ap
        self.orig = ap.Project.run_sim
        outer = self

        def run_sim(proj, *a, **kw):
            k = outer.k
            outer.k += 1
            if k in outer.which:
                raise BadInitialization(f"injected refusal of attempt {k}")
            return outer.orig(proj, *a, **kw)

        ap.Project.run_sim = run_sim
        return self

    def __exit__(self, *a):
        self.ap.Project.run_sim = self.orig
        return False


def run_retry(case):
    """every placement of <= `dev` refused attempts (deviations from the default answer 'accepted') x every schedule"""
    variant, entry, N, W = case["variant"], case["entry"], case["N"], case["W"]
    w = make_world(variant)
    vs = []
    h0 = (snap_hash(w.parset), snap_hash(w.progset), snap_hash(w.instr))
    scheds = [None] if W == 0 else list(schedules(N, W))
    faults = [()] + [(k,) for k in range(N)]
    if case["dev"] >= 2:
        faults += [(k, k2) for k in range(N) for k2 in range(k + 1, N + 1)]  # every placement of two refusals that are both reached
    nexec = nsims = 0
    for sched in scheds:
        for fault in faults:
            set_prior(case["prior"])
            with fail_initialisation(fault) as inj:
                ds = one_execution(w, entry, N, W, sched)
            nexec += 1
            nsims += inj.k
            lab = f"{variant} {entry} N={N} " + ("serial" if W == 0 else f"W={W} schedule={list(sched)}") + f" prior={case['prior']} refused attempts {list(fault)}"
            hits = 0
            for f_ in sorted(fault):
                hits += int(f_ < N + hits)  # a refusal placed beyond the last attempt is never reached
            if inj.k != N + hits:
                vs.append(V("retry-count", f"{lab}: {inj.k} simulation attempts for {N} samples and {hits} refusals", None))
            if len(ds) != N:
                vs.append(V("wrong-number-of-samples", f"{lab}: {len(ds)} samples returned", None))
            if len(set(ds)) < len(ds):
                dup = [i for i, d in enumerate(ds) if ds.index(d) != i]
                vs.append(V("duplicate-samples-after-retry", f"{lab}: samples {[(ds.index(ds[i]), i) for i in dup]} are identical", dict(schedule=sched and list(sched), fault=list(fault))))
            if (snap_hash(w.parset), snap_hash(w.progset), snap_hash(w.instr)) != h0:
                vs.append(V("sampling-altered-source", f"{lab}: the source parameter set / program set / instructions changed", None))
            if len(vs) >= 3:
                break
        if len(vs) >= 3:
            break
    return dict(states=nexec, transitions=nsims, traces=nexec, nontrivial=True, violations=vs[:3], counters=dict(schedules_x_refusal_placements=nexec, sampled_sims=nsims))


def run_resample(case):
    """one parameter set / program set used for two sampling calls in a row; between the calls the uncertainty is moved to quantities that had none"""
    entry, N, W = case["entry"], case["N"], case["W"]
    w = make_world("databook")
    vs = []
    scheds = [None] if W == 0 else list(schedules(N, W))
    nexec = 0
    for sched in scheds:
        w = make_world("databook")
        set_prior("seed0")
        one_execution(w, entry, N, W, sched)  # first call (vr is the uncertain quantity)
        # the user revises the uncertainties: vr is now certain, the death rate is the only uncertain quantity
        for ts in w.parset.pars["vr"].ts.values():
            ts.sigma = None
        for ts in w.parset.pars["dr"].ts.values():
            ts.sigma = 0.002
        ds = one_execution(w, entry, N, W, sched)
        nexec += 1
        lab = f"second sampling call on the same objects, {entry} N={N} " + ("serial" if W == 0 else f"W={W} schedule={list(sched)}")
        if len(set(ds)) < len(ds):
            dup = [i for i, d in enumerate(ds) if ds.index(d) != i]
            vs.append(V("duplicate-samples-on-second-call", f"{lab}: after the uncertainty was moved to other quantities, samples {[(ds.index(ds[i]), i) for i in dup]} are identical", dict(schedule=sched and list(sched))))
            break
    return dict(states=nexec, transitions=nexec * N * 2, traces=nexec, nontrivial=True, violations=vs[:3], counters=dict(resample_executions=nexec))


def run_real(case):
    """one real multiprocessing run: the equality pattern predicted by the virtual pool for SOME schedule must be the observed one (all-distinct in both or in neither)"""
    N, W = case["N"], case["W"]
    w = make_world("databook")
    set_prior("seed0")
    res = w.P.run_sampled_sims(w.parset, w.progset, w.instr, n_samples=N, parallel=True, num_workers=W)
    real = [digest(r) for r in res]
    real_distinct = len(set(real)) == N
    # virtual prediction: does any schedule give duplicates?
    any_dup = False
    for sched in schedules(N, W):
        set_prior("seed0")
        ds = one_execution(w, "project", N, W, sched)
        if len(set(ds)) < N:
            any_dup = True
            break
    vs = []
    # The real scheduler is not controlled, so this case never reports a violation of its own (the schedule enumeration does, deterministically).
    # It only binds the model to reality: duplicates in the real pool that NO virtual schedule predicts mean the fork model is wrong.
    if not real_distinct and not any_dup:
        from mc.runner import HarnessError

        raise HarnessError(f"real pool (N={N}, W={W}) produced duplicate samples {[real.index(d) for d in real]} but no virtual schedule predicts any: the fork model is not faithful")
    return dict(states=1, transitions=N, traces=1, nontrivial=True, violations=vs, counters=dict(real_runs=1, real_all_distinct=int(real_distinct), virtual_predicts_duplicates=int(any_dup)))


def run_fork(case):
    """a forked child inherits the parent's generator state: its first draw equals the virtual worker's first draw"""
    from mc.vpool import VPool
    from mc.runner import HarnessError

    np.random.seed(123)
    np.random.randn(3)
    r, wfd = os.pipe()
    pid = os.fork()
    if pid == 0:
        os.write(wfd, repr(float(np.random.randn())).encode())
        os._exit(0)
    os.waitpid(pid, 0)
    child = float(os.read(r, 100).decode())
    pool = VPool(2)
    virt = pool._in_worker(pool.workers[1], np.random.randn, (), {})
    if child != float(virt):
        raise HarnessError(f"virtual worker draw {virt!r} differs from a real forked child's {child!r}: the fork model is not faithful")
    return dict(states=1, transitions=1, traces=1, nontrivial=True, violations=[], counters=dict(fork_probe=1))


def run_case(case):
    return dict(virtual=run_virtual, retry=run_retry, resample=run_resample, real=run_real, fork=run_fork)[case["kind"]](case)
