"""C13 - active programs set targeted parameters exactly, and reports match the run"""

import itertools
import numpy as np
import sciris as sc
import atomica as at

from mc import simspace, refprog
from mc.oracles import V
from mc.build import World
from mc.props.c09 import arrays

LEVEL = "model_checking"
RULE = (
    "Program-carrying models: targeted parameter unit {number, probability, rate, proportion (junction outflow), non-transition} x 1..3 programs (sharing targets, one-off / continuous, saturation, capacity constraint) "
    "x 1..2 populations x 1..2 targeted compartments x instructions {start, start+stop, spending / capacity / coverage overwrite, time-varying spending} x dt; "
    "at EVERY time index: reported spending, capacity, eligible, fraction and number covered are recomputed from the spec and the result's compartment sizes, and while programs are active every targeted parameter "
    "must equal the documented outcome (mc/refprog.py) at the reported coverage, converted for number / per-year parameters and clipped; untargeted data parameters must equal the run without programs; "
    "report functions are called twice and must be repeatable and leave the result untouched."
)
ASSUMPTIONS = [
    "junctions are not targeted compartments (Result.get_coverage uses a junction's outflow as its size; outside the alphabet)",
    "transfer parameters are not program targets in this check",
    "reference formulas from Programs.rst (mc/refprog.py)",
]
CASE_TIMEOUT = 120
S0 = simspace.START

UNITS = ["probability", "rate", "number", "proportion", "nontransition", "fnparam", "rate_ts", "probability_ts"]  # *_ts: the parameter has its own timescale (half a year / a month)
INSTR = ["start", "startstop", "alloc", "capacity", "coverage", "coverage_high", "tv_alloc"]


def model(unit, nprog, npop, ncomp, instr, dt, tight=False):
    pops = ["pa", "pb"][:npop]
    spec = dict(
        comps=[dict(name="a", kind="ord", init={"pa": 100.0, "pb": 40.0}), dict(name="b", kind="ord", init={"pa": 20.0, "pb": 5.0}), dict(name="c", kind="ord", init=5.0)],
        pars=[dict(name="rec", fmt="rate", val=0.3), dict(name="back", fmt="rate", val=0.2), dict(name="other", fmt="probability", val={"t": [S0, S0 + 2], "v": [0.05, 0.15]}, targ=True)],
        links=[["b", "c", "rec"], ["c", "a", "back"], ["a", "c", "other"]],
        characs=[dict(name="alive", comps=["a", "b", "c"])],
        pops=pops,
        sim=[S0, S0 + 3, dt],
        years=[S0, S0 + 1, S0 + 2],
        tag="c13",
    )
    P = spec["pars"]
    base, outs = 0.1, [0.7, 0.4, 0.9]
    if unit in ("probability", "rate", "rate_ts", "probability_ts"):
        P.append(dict(name="tp", fmt=unit.split("_")[0], ts={"rate_ts": 0.5, "probability_ts": 1 / 12}.get(unit), val=0.2, targ=True, min=0, max=None if unit != "probability" else 0.95 / dt if dt < 1 else None))
        spec["links"].append(["a", "b", "tp"])
        base, outs = 0.1 * dt, [0.7 * dt, 0.4 * dt, 0.9 * dt]
    elif unit == "fnparam":
        # the targeted parameter has a function of data parameters only (pre-computable)
        P += [dict(name="kk", fmt=None, val={"t": [S0, S0 + 3], "v": [0.2, 0.5]}), dict(name="tp", fmt="probability", fn="kk*0.5", targ=True, min=0)]
        spec["links"].append(["a", "b", "tp"])
        base, outs = 0.1 * dt, [0.7 * dt, 0.4 * dt, 0.9 * dt]
    elif unit == "number":
        P.append(dict(name="tp", fmt="number", val=10.0, targ=True, min=0))
        spec["links"] += [["a", "b", "tp"]]
        base, outs = 0.0, [0.5, 0.3, 0.8]
    elif unit == "proportion":
        spec["comps"].append(dict(name="jn", kind="junc", default=0))
        P += [dict(name="tj", fmt="rate", val=0.6), dict(name="tp", fmt="proportion", val=0.3, targ=True, min=0, max=1), dict(name="q2", fmt="proportion", fn="1-tp", min=0, max=1)]
        spec["links"] += [["a", "jn", "tj"], ["jn", "b", "tp"], ["jn", "c", "q2"]]
        base, outs = 0.3, [0.9, 0.6, 0.1]
    else:
        P += [dict(name="tp", fmt=None, val=0.4, targ=True, min=0, max=1), dict(name="drv", fmt="probability", fn="tp*0.5")]
        spec["links"].append(["a", "b", "drv"])
        base, outs = 0.4, [0.9, 0.1, 0.6]
    if tight:
        # framework limits that the value implied by the program set violates at some coverages (the databook values lie inside them)
        tp = next(q for q in P if q["name"] == "tp")
        tp["max"] = 30.0 if unit == "number" else 0.5
        if unit not in ("probability", "rate", "rate_ts", "probability_ts", "fnparam", "number", "proportion"):
            tp["min"] = 0.3
    comps = ["a", "b"][:ncomp]
    progs = [dict(name="P1", pops=list(pops), comps=comps, spend=300.0, uc=10.0, oneoff=True)]
    if nprog >= 2:
        progs.append(dict(name="P2", pops=pops[:1], comps=["a"], spend={"t": [S0, S0 + 1], "v": [40.0, 160.0]}, uc=2.0, oneoff=False, sat=0.8))
    if nprog >= 3:
        progs.append(dict(name="P3", pops=list(pops), comps=comps, spend=500.0, uc=5.0, oneoff=True, cap=60.0))
    names = [p["name"] for p in progs]
    covouts = []
    for i, pop in enumerate(pops):
        mine = [n for n in names if pop in next(p for p in progs if p["name"] == n)["pops"]]
        covouts.append(dict(par="tp", pop=pop, base=base, progs={n: outs[j] for j, n in enumerate(mine)}, inter=["additive", "random", "nested"][(i + nprog) % 3], imp=(f"{mine[0]}+{mine[1]}={outs[2]!r}" if len(mine) >= 2 and unit == "probability" else None)))
    ins = dict(start=S0 + 1)
    if instr == "startstop":
        ins["stop"] = S0 + 2
    elif instr == "alloc":
        ins["alloc"] = {"P1": 900.0}
    elif instr == "capacity":
        ins["capacity"] = {"P1": 25.0}
    elif instr == "coverage":
        ins["coverage"] = {"P1": 0.35}
    elif instr == "coverage_high":
        ins["coverage"] = {"P1": 2.4}  # per year, above 1: a one-off program covers min(2.4*dt, 1) of the eligible people per step
    elif instr == "tv_alloc":
        ins["alloc"] = {"P1": {"t": [S0 + 1, S0 + 1.5, S0 + 2.5], "v": [100.0, 800.0, 50.0]}}
    spec["progs"] = dict(progs=progs, covouts=covouts, instr=ins)
    spec["c13"] = dict(unit=unit, nprog=nprog, npop=npop, ncomp=ncomp, instr=instr, tight=tight)
    return spec


def cases(tier):
    dts = [1.0, 0.25] if tier == "quick" else [1.0, 0.25, 1 / 12, 0.5]
    for unit, nprog, npop, ncomp, instr, dt in itertools.product(UNITS, (1, 2, 3), (1, 2), (1, 2), INSTR, dts):
        yield model(unit, nprog, npop, ncomp, instr, dt)
        yield model(unit, nprog, npop, ncomp, instr, dt, tight=True)
        if instr in ("alloc", "capacity", "coverage", "tv_alloc"):
            sp = model(unit, nprog, npop, ncomp, instr, dt)
            sp["c13"]["late"] = True
            yield sp
        if unit != "probability" and instr in ("start", "alloc", "startstop"):
            # the program set is a sampled copy (uncertainty on the outcomes): the oracle reads the outcomes the sampled set shows
            sp = model(unit, nprog, npop, ncomp, instr, dt)
            for co in sp["progs"]["covouts"]:
                co["sigma"] = 0.05
            sp["c13"]["sampled"] = True
            yield sp


def run_case(spec):
    w = World(spec)
    if spec["c13"].get("sampled"):
        np.random.seed(11)
        w.progset = w.progset.sample()
        for co in spec["progs"]["covouts"]:
            live = w.progset.covouts[(co["par"], co["pop"])]
            co["progs"] = {k: float(v) for k, v in live.progs.items()}
            co["base"] = float(live.baseline)
    if spec["c13"].get("late"):
        # the model is built with plain start/stop instructions; the overwrites are put into the built model's instructions afterwards
        # (as an adjustment does during optimisation) and that same object is then integrated
        from atomica.model import Model
        from atomica.results import Result

        plain = at.ProgramInstructions(start_year=w.instr.start_year, stop_year=w.instr.stop_year)
        m_ = Model(w.P.settings, w.F, w.parset, w.progset, plain)
        for attr in ("alloc", "capacity", "coverage"):
            for k, v in getattr(w.instr, attr).items():
                getattr(m_.program_instructions, attr)[k] = sc.dcp(v)
        m_.process()
        r = Result(model=m_, parset=w.parset, name="late")
    else:
        r = w.run()
    r0 = w.run(progs=False)
    m = r.model
    t = m.t
    dt = m.dt
    T = len(t)
    vs = []
    P = spec["progs"]
    ins = P["instr"]
    before = arrays(r)
    rep = dict(fraction=r.get_coverage("fraction"), capacity=r.get_coverage("capacity"), eligible=r.get_coverage("eligible"), number=r.get_coverage("number"), alloc=r.get_alloc())
    rep2 = dict(fraction=r.get_coverage("fraction"), capacity=r.get_coverage("capacity"), eligible=r.get_coverage("eligible"), number=r.get_coverage("number"), alloc=r.get_alloc())
    for q in rep:
        for k in rep[q]:
            if not np.array_equal(rep[q][k], rep2[q][k], equal_nan=True):
                vs.append(V("report-not-repeatable", f"{spec['c13']}: second call of the {q} report for {k} differs from the first", None))
    # the caller goes on to edit the instructions / program set it passed in (e.g. a budget sweep): the finished result must keep reporting what produced it
    w.instr.alloc["P1"] = at.TimeSeries([S0, S0 + 1.2], [5.0, 7777.0])
    w.instr.coverage["P1"] = at.TimeSeries([S0], [0.99])
    w.instr.capacity["P1"] = at.TimeSeries([S0], [1.0])
    w.progset.programs["P1"].unit_cost.insert(S0, 123.0)
    rep3 = dict(fraction=r.get_coverage("fraction"), capacity=r.get_coverage("capacity"), eligible=r.get_coverage("eligible"), number=r.get_coverage("number"), alloc=r.get_alloc())
    for q in rep:
        for k in rep[q]:
            if not np.array_equal(rep[q][k], rep3[q][k], equal_nan=True):
                vs.append(V("report-follows-callers-later-edits", f"{spec['c13']}: after the caller edited the instructions / program set it had passed in, the finished result reports a different {q} for {k}", None))
    after = arrays(r)
    for k in before:
        if not np.array_equal(before[k], after[k], equal_nan=True):
            vs.append(V("report-modifies-result", f"{spec['c13']}: producing the coverage/spending reports changed {k} in the result", None))
            break
    stock = lambda pop, c, i: float(np.asarray(m.get_pop(pop).get_comp(c).vals)[i])
    active = lambda ti: ins["start"] <= t[ti] + 1e-9 and (ins.get("stop") is None or t[ti] <= ins["stop"] + 1e-9)
    for pr in P["progs"]:
        n = pr["name"]
        k = dt if pr.get("oneoff") else 1.0
        for i in range(T):
            lab = f"{spec['c13']} dt={dt!r} {n} t={t[i]!r}"
            el = sum(stock(pop, c, i) for pop in pr["pops"] for c in pr["comps"])
            if abs(rep["eligible"][n][i] - el) > 1e-9 * max(1, el):
                vs.append(V("reported-eligible", f"{lab}: reported {rep['eligible'][n][i]!r}, targeted compartments hold {el!r}", None))
            sp = refprog.interp_previous(ins["alloc"][n], t[i]) if ins.get("alloc") and n in ins["alloc"] else refprog.interp_previous(pr["spend"], t[i])
            if abs(rep["alloc"][n][i] - sp) > 1e-9 * max(1, sp):
                vs.append(V("reported-spending", f"{lab}: reported {rep['alloc'][n][i]!r}, stepped spending series gives {sp!r}", None))
            if ins.get("capacity") and n in ins["capacity"]:
                cap_step = refprog.interp_previous(ins["capacity"][n], t[i]) * k
            else:
                cap_step = refprog.prog_capacity(pr, sp, t[i], dt)
            if abs(rep["capacity"][n][i] - cap_step / k) > 1e-9 * max(1, cap_step / k):
                vs.append(V("reported-capacity", f"{lab}: reported {rep['capacity'][n][i]!r} people/year, spending and unit cost give {cap_step / k!r}", None))
            if ins.get("coverage") and n in ins["coverage"]:
                fr = min(refprog.interp_previous(ins["coverage"][n], t[i]) * k, 1.0)
            else:
                fr = min(refprog.prog_prop_covered(pr, cap_step, el, t[i]), 1.0)
            if abs(rep["fraction"][n][i] - fr) > 1e-9:
                vs.append(V("reported-coverage", f"{lab}: reported fraction {rep['fraction'][n][i]!r}, capacity {cap_step!r} and eligible {el!r} give {fr!r}", None))
            if abs(rep["number"][n][i] - fr * el / k) > 1e-9 * max(1, fr * el / k):
                vs.append(V("reported-number", f"{lab}: reported number covered {rep['number'][n][i]!r}, fraction x eligible = {fr * el / k!r}", None))
            if len(vs) > 5:
                break
    # targeted parameters while programs are active
    fw = {p["name"]: p for p in spec["pars"]}
    nact = nclip = 0
    for co in P["covouts"]:
        par, pop = co["par"], co["pop"]
        pobj = m.get_pop(pop).get_par(par)
        base_par = r0.model.get_pop(pop).get_par(par)
        for i in range(T):
            if active(i):
                nact += 1
                cov = {n: float(rep["fraction"][n][i]) for n in co["progs"]}
                v = refprog.covout_outcome(co, cov)
                f = fw[par]
                if f.get("fmt") == "number":
                    src = sum(float(np.asarray(l.source.vals)[i]) if not hasattr(l.source, "_vals") else float(l.source._vals[:, i].sum()) for l in pobj.links)
                    v = v * src / dt
                elif f.get("fmt") in ("probability", "rate"):
                    v = v / dt
                nclip += int((f.get("min") is not None and v < f["min"]) or (f.get("max") is not None and v > f["max"]))
                if f.get("min") is not None:
                    v = max(v, f["min"])
                if f.get("max") is not None:
                    v = min(v, f["max"])
                got = float(pobj.vals[i])
                if abs(got - v) > 1e-9 * max(1.0, abs(v)):
                    vs.append(V("targeted-parameter", f"{spec['c13']} dt={dt!r}: {par} in {pop} at t={t[i]!r} is {got!r}; the program set implies {v!r} at coverage {cov}", dict(index=i)))
                    break
            elif fw[par].get("fn") is None and par != "tp_dyn":
                if float(pobj.vals[i]) != float(base_par.vals[i]):
                    vs.append(V("targeted-parameter-outside-window", f"{spec['c13']}: {par} in {pop} at t={t[i]!r} (programs inactive) is {float(pobj.vals[i])!r}, without programs {float(base_par.vals[i])!r}", None))
                    break
    # untargeted data parameters and untargeted populations: identical to the run without programs
    targeted = {(co["par"], co["pop"]) for co in P["covouts"]}
    for pop in m.pops:
        for p in pop.pars:
            f = fw.get(p.name)
            if f is not None and f.get("fn") is None and (p.name, pop.name) not in targeted:
                if not np.array_equal(p.vals, r0.model.get_pop(pop.name).get_par(p.name).vals):
                    vs.append(V("untargeted-parameter-changed", f"{spec['c13']}: data parameter {p.name} in {pop.name} differs from the run without programs although no program targets it", None))
    return dict(states=T, transitions=T - 1, traces=1, nontrivial=nact > 0, violations=vs[:6], counters=dict(active_checks=nact, active_checks_with_binding_limit=nclip, **{"unit_" + spec["c13"]["unit"]: 1}))
