"""C15 - optimisation and calibration never make things worse and never leak side effects"""

import itertools
import pickle
import numpy as np
import sciris as sc
import atomica as at
from atomica.optimization import InvalidInitialConditions

from mc import simspace
from mc.oracles import V
from mc.build import World
from mc.snapshot import snap_hash, snap, diff
from mc.asdctl import scripted, explore
from mc.props import c06

LEVEL = "fault_enumeration"
RULE = (
    "(a) every decision path of the ASD optimiser (every sequence of (parameter, direction) choices, enumerated with a scripted random stream) up to maxiters = 2 (quick) / 4 (thorough) for optimize() with 1-2 spending adjustables, "
    "measurables over a single year / a range, with and without population selection, with and without a total-spend constraint, with a hard AtLeast/AtMost target that the start satisfies; and for calibrate() with 1-2 adjustables. "
    "Oracle per path: the objective recomputed by the harness from Result arrays (documented sum over years and populations) is no worse than the start's, adjusted values within bounds, hard targets still met, library objective = harness objective. "
    "(b) crash points: an exception injected into the k-th simulation for EVERY k up to the number of simulations of a reference run of Project.calibrate, optimize, Project.run_optimization and reconcile; "
    "caller-owned objects (parameter set, program set, instructions, project settings incl. the end year) must be snapshot-equal before/after. (c) iteration budgets maxiters in {1,2} (quick) / {1,2,3,5} (thorough). "
    "Non-trivial = paths in which at least one step was accepted / crash points inside the optimiser loop."
)
ASSUMPTIONS = [
    "default (ASD) method only; pso / hyperopt back-ends and ASD paths deeper than the bound are not explored",
    "small generated problems (7-compartment 2-population model with two programs; 2-population aggregation model for calibration)",
    "the injected fault is an exception raised inside Model.process (the simulation entry point), wrapped from outside",
    "iteration budgets start at 1: sciris ASD always performs one iteration and raises an IndexError of its own for maxiters=0 (third-party code, outside atomica)",
]
CASE_TIMEOUT = 900


class InjectedFault(Exception):
    pass


def make_A():
    spec = simspace.combined_spec(0.25, v=0.3, dur=1.0, tj=0.2, pa=0.3, d=0.01, br=5.0, prog=True)
    spec["progs"]["instr"] = dict(start=2001.0, alloc={"P1": 1000.0, "P2": 400.0})
    return World(spec)


def make_T():
    """model A plus a second population type (one population, listed last) that has none of A's quantities"""
    spec = simspace.combined_spec(0.25, v=0.3, dur=1.0, tj=0.2, pa=0.3, d=0.01, br=5.0, prog=True)
    spec["progs"]["instr"] = dict(start=2001.0, alloc={"P1": 1000.0, "P2": 400.0})
    spec["ptypes"] = ["ta", "tb"]
    for it in spec["comps"] + spec["characs"] + spec["pars"] + spec.get("transfers", []):
        it["ptype"] = "ta"
    pops = list(spec.get("pops") or ["pa"])
    spec["pops"] = pops + ["pz"]
    spec["pop_types"] = dict({p: "ta" for p in pops}, pz="tb")
    spec["comps"] += [dict(name="x", kind="ord", init=7.0, ptype="tb"), dict(name="y", kind="ord", init=3.0, ptype="tb")]
    spec["pars"].append(dict(name="rxy", fmt="rate", val=0.5, ptype="tb"))
    spec["links"].append(["x", "y", "rxy"])
    return World(spec)


def make_world(cfg):
    return make_T() if cfg.get("world") == "types" else make_A()


def make_B():
    spec = c06.model("agg", 0.25, "three", 0.5, 1.5, "none", False, None)
    spec["comps"][0]["init"] = {"pa": {"t": [2000.0, 2002.0], "v": [100.0, 70.0]}, "pb": {"t": [2000.0, 2002.0], "v": [40.0, 60.0]}}
    spec["years"] = [2000.0, 2001.0, 2002.0]
    return World(spec)


OPT_CONFIGS = [
    dict(name="max_range", meas=("max", "vac", [2001, 2004], None), adj=2, tsc=True),
    dict(name="max_single_year", meas=("max", "vac", [2003], None), adj=2, tsc=True),
    dict(name="max_pop", meas=("max", "vac", [2001, 2004], ["pa1"]), adj=2, tsc=True),
    dict(name="min_flow_pop", meas=("min", "sus:dead", [2001, 2004], ["pb1"]), adj=2, tsc=False),
    dict(name="one_adjustable", meas=("max", "vac", [2001, 2004], None), adj=1, tsc=False),
    dict(name="minmoney_atleast", meas=("min", "P1", [2001, 2004], None), adj=2, tsc=False, hard=("atleast", "vac", [2003], 1.0)),
    dict(name="max_atmost", meas=("max", "vac", [2001, 2004], None), adj=2, tsc=True, hard=("atmost", "sus", [2003], 1e6)),
    dict(name="two_measurables_same_flow", meas=("min", "sus:dead", [2001, 2004], None), extra_meas=[("min", "sus:dead", [2002, 2003], None), ("min", "sus:dead", [2003], ["pa1"])], adj=2, tsc=True),
    dict(name="max_two_population_types", meas=("max", "vac", [2001, 2004], None), adj=2, tsc=True, world="types"),
    dict(name="minmoney_increaseby", meas=("min", "P1", [2001, 2004], None), adj=2, tsc=False, hard=("increaseby", "vac", [2003], 0.0)),  # "must not fall below its value under the original instructions"
]


def build_opt(cfg, maxiters):
    kind, name, t, pops = cfg["meas"]
    M = at.MaximizeMeasurable if kind == "max" else at.MinimizeMeasurable
    meas = [M(name, t, pop_names=pops)]
    for k2, n2, t2, p2 in cfg.get("extra_meas", []):
        meas.append((at.MaximizeMeasurable if k2 == "max" else at.MinimizeMeasurable)(n2, t2, pop_names=p2))
    if cfg.get("hard"):
        hk, hn, ht, thr = cfg["hard"]
        if hk == "increaseby":
            meas.append(at.optimization.IncreaseByMeasurable(hn, ht, thr))  # relative to the value under the ORIGINAL instructions of the problem being solved
        else:
            meas.append((at.AtLeastMeasurable if hk == "atleast" else at.AtMostMeasurable)(hn, ht, thr))
    adj = [at.SpendingAdjustment("P1", 2001.0, "abs", 100.0, 3000.0)]
    if cfg["adj"] == 2:
        adj.append(at.SpendingAdjustment("P2", 2001.0, "rel", 0.25, 4.0))
    cons = [at.TotalSpendConstraint()] if cfg["tsc"] else None
    return at.Optimization(adjustments=adj, measurables=meas, constraints=cons, maxiters=maxiters, maxtime=1e9)


def harness_objective(cfg, r):
    """the documented objective: sum over the measurables of the requested output over the requested years and populations (sign by direction)"""
    return sum(_one_objective(m_, r) for m_ in [cfg["meas"]] + list(cfg.get("extra_meas", [])))


def _one_objective(meas, r):
    kind, name, t, pops = meas
    m = r.model
    tt = m.t
    filt = (tt == t[0]) if len(t) == 1 else ((tt >= t[0]) & (tt < t[1]))
    if name in m.progset.programs:
        val = float(np.sum(m.progset.get_alloc(tt, m.program_instructions)[name][filt]))
    else:
        val = 0.0
        for pop in m.pops:
            if pops and pop.name not in pops:
                continue
            try:
                found = pop.get_variable(name)
            except at.NotFoundError:
                continue  # a population (of another type) that does not have the quantity contributes nothing
            for var in found:
                v = np.asarray(var.vals, dtype=float)[filt]
                val += float(np.sum(v / m.dt)) if isinstance(var, at.model.Link) else float(np.sum(v))
    return -val if kind == "max" else val


def hard_ok(cfg, r, r_start=None):
    if not cfg.get("hard"):
        return True
    hk, hn, ht, thr = cfg["hard"]
    if hk == "increaseby":
        if r_start is None:
            return True
        f = lambda rr: sum(float(np.sum(np.asarray(var.vals)[rr.model.t == ht[0]])) for pop in rr.model.pops if hn in [c.name for c in pop.comps + pop.characs + pop.pars] for var in pop.get_variable(hn))
        return f(r) >= f(r_start) * (1 + thr) * (1 - 1e-9)
    tt = r.model.t
    filt = tt == ht[0]
    val = sum(float(np.sum(np.asarray(var.vals)[filt])) for pop in r.model.pops if hn in [c.name for c in pop.comps + pop.characs + pop.pars] for var in pop.get_variable(hn))
    return val >= thr if hk == "atleast" else val <= thr


def _start_instr(w, opt):
    """the instructions at the optimiser's starting point (initial adjustable values applied)"""
    i2 = sc.dcp(w.instr)
    x0 = opt.get_initialization(w.progset, i2)[0]
    opt.update_instructions(x0, i2)
    if opt.constraints:
        opt.constrain_instructions(i2, opt.get_hard_constraints(x0, w.instr))
    return i2


def cases(tier):
    d = 2 if tier == "quick" else 4
    for cfg in OPT_CONFIGS:
        yield dict(kind="opt_paths", cfg=cfg["name"], maxiters=d)
    for adj in (["p1"], ["p1", "rec"]):
        yield dict(kind="cal_paths", adjustables=adj, maxiters=d)
    yield dict(kind="cal_paths", adjustables=["p1"], maxiters=1, start_outside_limits=True)
    for cfg in OPT_CONFIGS:
        yield dict(kind="opt_reuse", cfg=cfg["name"], maxiters=2)
        yield dict(kind="opt_multistart", cfg=cfg["name"], maxiters=2)
    for target in ("calibrate", "optimize", "run_optimization", "reconcile"):
        for mi in (1, 2) if tier == "quick" else (1, 2, 3, 5):
            yield dict(kind="crash", target=target, maxiters=mi)


def run_opt_paths(case):
    cfg = next(c for c in OPT_CONFIGS if c["name"] == case["cfg"])
    w = make_world(cfg)
    vs = []
    objs = dict(parset=w.parset, progset=w.progset, instr=w.instr, settings=w.P.settings)
    h0 = {k: snap_hash(v) for k, v in objs.items()}
    r0 = w.P.run_sim(w.parset, w.progset, w.instr, store_results=False)
    f0 = harness_objective(cfg, r0)
    if not hard_ok(cfg, r0):
        from mc.runner import HarnessError

        raise HarnessError(f"config {cfg['name']}: the starting point does not meet its own hard target")
    evaluated = []
    import atomica.optimization as ao

    orig_obj = ao._objective_fcn

    def spy(x, **kw):
        v = orig_obj(x, **kw)
        evaluated.append((np.array(x, dtype=float), v))
        return v

    def run(prefix):
        opt = build_opt(cfg, case["maxiters"])
        evaluated.clear()
        ao._objective_fcn = spy
        try:
            with scripted(prefix) as rng:
                try:
                    ins = at.optimize(w.P, opt, w.parset, w.progset, w.instr)
                    out = ("ok", ins, list(evaluated), opt)
                except Exception as e:  # noqa
                    out = ("raised", e, list(evaluated), opt)
        finally:
            ao._objective_fcn = orig_obj
        return rng, out

    n_choices = 2 * cfg["adj"]
    npaths = nacc = 0
    for path, (status, ins, evals, opt) in explore(run, n_choices, max_draws=case["maxiters"] + 2):
        npaths += 1
        lab = f"optimize[{cfg['name']}] maxiters={case['maxiters']} ASD path {path}"
        if status == "raised":
            vs.append(V(f"optimize-raised:{type(ins).__name__}", f"{lab}: {type(ins).__name__}: {str(ins)[:160]}", dict(path=path)))
            break
        r1 = w.P.run_sim(w.parset, w.progset, ins, store_results=False)
        f1 = harness_objective(cfg, r1)
        if f1 < f0 - 1e-12:
            nacc += 1
        if f1 > f0 + 1e-9 * max(1.0, abs(f0)):
            vs.append(V("objective-worse", f"{lab}: objective {f1!r} is worse than the starting point's {f0!r}", dict(path=path)))
        if not hard_ok(cfg, r1, r0) and hard_ok(cfg, w.P.run_sim(w.parset, w.progset, opt.adjustments and _start_instr(w, opt), store_results=False), r0):
            vs.append(V("hard-target-lost", f"{lab}: the returned allocation violates the hard target {cfg.get('hard')} that the starting point met", dict(path=path)))
        # bounds
        a1 = float(ins.alloc["P1"].get(2001.0))
        if not (100.0 - 1e-6 <= a1 <= 3000.0 + 1e-6):
            vs.append(V("adjusted-value-out-of-bounds", f"{lab}: P1 = {a1!r} outside [100, 3000]", dict(path=path)))
        if cfg["adj"] == 2:
            a2 = float(ins.alloc["P2"].get(2001.0))
            if not (100.0 - 1e-6 <= a2 <= 1600.0 + 1e-6):
                vs.append(V("adjusted-value-out-of-bounds", f"{lab}: P2 = {a2!r} outside [0.25, 4] x 400", dict(path=path)))
            if cfg["tsc"] and abs(a1 + a2 - 1400.0) > 1e-6 * 1400:
                vs.append(V("total-spend-not-kept", f"{lab}: P1 + P2 = {a1 + a2!r}, constrained total 1400", dict(path=path)))
        # library objective = documented sum, at every evaluated point of this path (first two evaluations are the starting point)
        for x, v in evals[:1] + evals[-1:]:
            i2 = sc.dcp(w.instr)
            opt.update_instructions(x, i2)
            if opt.constraints:
                try:
                    opt.constrain_instructions(i2, opt.get_hard_constraints(evals[0][0], w.instr))
                except Exception:
                    continue
            rx = w.P.run_sim(w.parset, w.progset, i2, store_results=False)
            fx = harness_objective(cfg, rx) + (0.0 if hard_ok(cfg, rx) else np.inf)
            if np.isfinite(v) and abs(fx - v) > 1e-9 * max(1.0, abs(v)):
                vs.append(V("objective-not-documented-sum", f"{lab}: at x={x.tolist()} the library evaluated {v!r}, the sum of the requested output over the requested years/populations is {fx!r}", dict(path=path)))
        for k, v in objs.items():
            if snap_hash(v) != h0[k]:
                vs.append(V("caller-object-modified", f"{lab}: {k} changed", dict(path=path)))
                h0[k] = snap_hash(v)
        if len(vs) >= 3:
            break
    return dict(states=npaths, transitions=npaths, nontrivial=nacc > 0, violations=vs[:3], counters=dict(asd_paths=npaths, asd_paths_improving=nacc))


def cal_objective(w, ps):
    r = w.P.run_sim(ps, store_results=False)
    return r


def run_cal_paths(case):
    w = make_B()
    vs = []
    objs = dict(parset=w.parset, settings=w.P.settings, data=w.D)
    h0 = {k: snap_hash(v) for k, v in objs.items()}
    adjustables = [(a, None, 0.1, 10.0) for a in case["adjustables"]]
    measurables = ["a"]
    if case.get("start_outside_limits"):
        # the caller's current calibration lies outside the limits given for the search: it must still not be touched
        w.parset.pars["p1"].y_factor["pa"] = 2.5
        adjustables = [("p1", "pa", 0.1, 2.0)]
        h0 = {k: snap_hash(v) for k, v in objs.items()}

    def mismatch(ps):
        # fractional mismatch between data and model for compartment a in both populations (the default calibration metric)
        end0 = w.P.settings.sim_end
        r = w.P.run_sim(ps, store_results=False)
        tot = 0.0
        for pop in ("pa", "pb"):
            ts = w.D.tdve["a"].ts[pop]
            for tt, vv in zip(ts.t, ts.vals):
                mv = float(np.interp(tt, r.model.t, r.get_variable("a", pop)[0].vals))
                tot += abs(mv - vv) / max(vv, 1.0)  # the documented default ('fractional') calibration metric
        return tot

    f0 = mismatch(w.parset)

    def run(prefix):
        with scripted(prefix) as rng:
            try:
                ps = w.P.calibrate(w.parset, adjustables=adjustables, measurables=measurables, max_time=1e9, maxiters=case["maxiters"])
                out = ("ok", ps)
            except Exception as e:  # noqa
                out = ("raised", e)
        return rng, out

    npaths = nacc = 0
    # one y-factor per population is adjusted when pop is None -> 2 populations
    n_choices = 2 * len(adjustables) * (1 if case.get("start_outside_limits") else 2)
    for path, (status, ps) in explore(run, n_choices, max_draws=case["maxiters"] + 2):
        npaths += 1
        lab = f"calibrate{case['adjustables']} maxiters={case['maxiters']} ASD path {path}"
        if status == "raised":
            vs.append(V(f"calibrate-raised:{type(ps).__name__}", f"{lab}: {type(ps).__name__}: {str(ps)[:160]}", dict(path=path)))
            break
        # library's own objective, re-evaluated at start and result: never worse
        from atomica.calibration import _calculate_objective  # noqa

        for a in case["adjustables"]:
            for pop, yf in ps.pars[a].y_factor.items():
                if not (0.1 * w.parset.pars[a].y_factor[pop] - 1e-9 <= yf <= 10.0 * w.parset.pars[a].y_factor[pop] + 1e-9) and not (0.1 - 1e-9 <= yf <= 10.0 + 1e-9):
                    vs.append(V("calibration-out-of-bounds", f"{lab}: y-factor of {a}/{pop} = {yf!r} outside [0.1, 10]", dict(path=path)))
        f1 = mismatch(ps)
        if f1 < f0 - 1e-12:
            nacc += 1
        if not case.get("start_outside_limits") and f1 > f0 + 1e-9 * max(1.0, f0):
            vs.append(V("calibration-worse", f"{lab}: mismatch between data and model is {f1!r} after calibration, {f0!r} before", dict(path=path)))
        for k, v in objs.items():
            if snap_hash(v) != h0[k]:
                vs.append(V("caller-object-modified", f"{lab}: {k} changed", dict(path=path)))
                h0[k] = snap_hash(v)
        if len(vs) >= 3:
            break
    return dict(states=npaths, transitions=npaths, nontrivial=npaths > 1, violations=vs[:3], counters=dict(asd_paths_calibration=npaths, calibration_paths_improving=nacc))


def run_opt_reuse(case):
    """one Optimization object is used for two different problems in a row: the second answer must equal the answer of a fresh object"""
    cfg = next(c for c in OPT_CONFIGS if c["name"] == case["cfg"])
    vs = []
    n = 0
    for path in ([], [1], [2, 1]):
        w1, w2 = make_world(cfg), make_world(cfg)
        w2.parset.pars["vr"].y_factor["pa1"] = 0.4  # a different problem: other calibration, other baseline values
        w2.parset.pars["dr"].meta_y_factor = 3.0
        reused = build_opt(cfg, case["maxiters"])
        fresh = build_opt(cfg, case["maxiters"])
        def solve(w, opt):
            try:
                with scripted(path):
                    res = at.optimize(w.P, opt, w.parset, w.progset, w.instr)
                return {k: [float(x) for x in v.vals] for k, v in res.alloc.items()}
            except InvalidInitialConditions as e:
                return f"InvalidInitialConditions: {e}"

        solve(w1, reused)
        xa = solve(w2, reused)
        xb = solve(w2, fresh)
        n += 1
        if xa != xb:
            vs.append(V("optimization-object-keeps-state", f"optimize[{cfg['name']}] ASD path {path}: an Optimization object already used for another problem returns {xa}, a fresh one {xb}", dict(path=path)))
            break
    return dict(states=n, transitions=n, nontrivial=n > 0, violations=vs, counters=dict(reuse_pairs=n))


def run_opt_multistart(case):
    """the multi-start sequence of optimize()'s documentation: get_initialization, choose another starting point, get_hard_constraints for it
    with the caller's own instructions, optimize(..., x0, xmin, xmax, hard_constraints).  The caller's objects stay as they are at every step."""
    cfg = next(c for c in OPT_CONFIGS if c["name"] == case["cfg"])
    vs = []
    n = 0
    for scale in (0.5, 1.0, 1.7):
        for path in ([], [1], [2, 1]):
            w = make_world(cfg)
            objs = dict(parset=w.parset, progset=w.progset, instr=w.instr, settings=w.P.settings)
            h0 = {k: snap_hash(v) for k, v in objs.items()}
            s0 = {k: snap(v) for k, v in objs.items()}
            opt = build_opt(cfg, case["maxiters"])
            steps = []
            try:
                x0, xmin, xmax = opt.get_initialization(w.progset, w.instr)
                steps.append("get_initialization")
                x1 = np.clip(np.asarray(x0, dtype=float) * scale, xmin, xmax)
                hard = opt.get_hard_constraints(x1, w.instr)
                steps.append("get_hard_constraints")
                with scripted(path):
                    at.optimize(w.P, opt, w.parset, w.progset, w.instr, x0=x1, xmin=xmin, xmax=xmax, hard_constraints=hard)
                steps.append("optimize")
            except (InvalidInitialConditions, at.optimization.UnresolvableConstraint):
                pass
            n += 1
            for k, v in objs.items():
                if snap_hash(v) != h0[k]:
                    vs.append(V("caller-object-modified", f"multi-start optimize[{cfg['name']}] start x{scale} path {path} (completed steps {steps}): {k} changed: {diff(s0[k], snap(v))[:2]}", dict(obj=k)))
            if vs:
                break
        if vs:
            break
    return dict(states=n, transitions=n, nontrivial=n > 0, violations=vs[:3], counters=dict(multistart_sequences=n))


class _OptimIns:
    """duck-typed optimisation instructions as the apps store them in Project.optims"""

    def __init__(self, opt, ins, end_year):
        self.name = "o"
        self.json = dict(end_year=end_year, optim_type="outcome")
        self._opt, self._ins = opt, ins

    def make(self, project):
        self._opt.parsetname = project.parsets[0].name
        self._opt.progsetname = project.progsets[0].name
        return self._opt, self._ins


def run_crash(case):
    target, mi = case["target"], case["maxiters"]
    import atomica.model as am

    counter = dict(n=0, fail_at=None)
    orig = am.Model.process

    def wrapped(self):
        counter["n"] += 1
        if counter["fail_at"] is not None and counter["n"] == counter["fail_at"]:
            raise InjectedFault(f"injected into simulation {counter['n']}")
        return orig(self)

    def fresh():
        if target == "calibrate":
            w = make_B()
            call = lambda: w.P.calibrate(w.parset, adjustables=[("p1", None, 0.1, 10.0)], measurables=["a"], max_time=1e9, maxiters=mi, randseed=1)
            objs = dict(parset=w.parset, settings=w.P.settings, data=w.D)
        elif target == "optimize":
            w = make_A()
            opt = build_opt(OPT_CONFIGS[0], mi)
            call = lambda: at.optimize(w.P, opt, w.parset, w.progset, w.instr, optim_args=dict(randseed=1))
            objs = dict(parset=w.parset, progset=w.progset, instr=w.instr, settings=w.P.settings)
        elif target == "run_optimization":
            w = make_A()
            w.P.progsets.append(w.progset)
            opt = build_opt(OPT_CONFIGS[0], mi)
            w.P.optims["o"] = _OptimIns(opt, w.instr, end_year=2002.0)
            call = lambda: w.P.run_optimization("o", maxiters=mi, store_results=False)
            objs = dict(parset=w.parset, progset=w.progset, instr=w.instr, settings=w.P.settings)
        else:
            w = make_A()
            def call():
                # reconcile() has no iteration budget of its own; its optimiser stream is scripted so that the run is deterministic
                with scripted([1, 0, 1][:mi]):
                    return at.reconcile(w.P, w.parset, w.progset, 2001.0, max_time=1e9, unit_cost_bounds=0.05, outcome_bounds=0.05)

            objs = dict(parset=w.parset, progset=w.progset, instr=w.instr, settings=w.P.settings)
        return w, call, objs

    vs = []
    am.Model.process = wrapped
    npts = 0
    try:
        # reference run: count simulations, check no side effects when it completes / runs out of budget
        w, call, objs = fresh()
        h0 = {k: snap_hash(v) for k, v in objs.items()}
        counter.update(n=0, fail_at=None)
        np.random.seed(0)
        try:
            call()
        except Exception as e:
            vs.append(V(f"{target}-raised:{type(e).__name__}", f"{target} maxiters={mi}: reference run raised {type(e).__name__}: {str(e)[:200]}", None))
            return dict(states=1, transitions=0, nontrivial=False, violations=vs, counters={})
        K = counter["n"]
        for k, v in objs.items():
            if snap_hash(v) != h0[k]:
                vs.append(V("caller-object-modified", f"{target} maxiters={mi}: {k} changed by a call that completed (budget exhausted): {diff(snap(fresh()[2][k]), snap(v))[:2]}", None))
        for k_fail in range(1, K + 1):
            w, call, objs = fresh()
            h0 = {k: snap_hash(v) for k, v in objs.items()}
            s0 = {k: snap(v) for k, v in objs.items()}
            counter.update(n=0, fail_at=k_fail)
            np.random.seed(0)
            try:
                call()
                raised = False
            except InjectedFault:
                raised = True
            except Exception as e:
                raised = True
                if "injected" not in str(e) and not isinstance(e.__cause__, InjectedFault) and not isinstance(e.__context__, InjectedFault):
                    vs.append(V(f"{target}-fault-replaced:{type(e).__name__}", f"{target} maxiters={mi}: fault in simulation {k_fail}/{K} surfaced as {type(e).__name__}: {str(e)[:120]}", None))
            npts += 1
            for k, v in objs.items():
                if snap_hash(v) != h0[k]:
                    vs.append(V("side-effect-after-failure", f"{target} maxiters={mi}: a failure in simulation {k_fail} of {K} left {k} changed: {diff(s0[k], snap(v))[:2]}", dict(k=k_fail, obj=k)))
            if len(vs) >= 3:
                break
    finally:
        am.Model.process = orig
    return dict(states=npts + 1, transitions=npts, nontrivial=npts > 2, violations=vs[:3], counters={"crash_points_" + target: npts})


def run_case(case):
    return dict(opt_paths=run_opt_paths, cal_paths=run_cal_paths, crash=run_crash, opt_reuse=run_opt_reuse, opt_multistart=run_opt_multistart)[case["kind"]](case)
