"""C01 - conservation: stocks change only by recorded flows (DESIGN.md 5, C01)"""

from mc import simspace, oracles
from mc.build import run_spec

LEVEL = "model_checking"
RULE = (
    "Exhaustive product spaces flows/junctions/timed/pops/combined of mc/simspace.py (every valid structure inside the bound x every value level x every dt), "
    "each simulated on the real code; states = time indices of each run, transitions = steps; balance invariant evaluated at every state. "
    "A case is non-trivial if some flow is > 0; distinct = distinct spec hash."
)
ASSUMPTIONS = [
    "bounds: <= 3 core compartments (+source, sink, <= 3 junctions), <= 2 populations, value levels and dt alphabet of mc/simspace.py",
    "domain restriction of the property: cases where a plain junction that receives people has proportion sum 0 are recognised from the spec and excluded (counted as 'out_of_domain')",
    "balance tolerance 1e-9 * max(1, stock) as stated in the property",
]
CASE_TIMEOUT = 60


def cases(tier):
    from mc.props.c04 import prog_gadgets

    yield from prog_gadgets(tier)  # junction proportions overwritten by a program from t0 / from mid-run
    yield from simspace.all_sim(tier)


def in_domain(spec):
    g = spec.get("gadget")
    return True if g is None else bool(g["ok"])


def run_case(spec):
    if not in_domain(spec):
        return dict(states=0, transitions=0, nontrivial=False, violations=[], counters=dict(out_of_domain=1))
    w, r = run_spec(spec)
    T = len(r.model.t)
    if r.model.progset is not None:
        # the stocks and flows "recorded" in a result are what a user reads after the usual reporting calls: those calls come first
        for q in ("fraction", "capacity", "eligible", "number"):
            r.get_coverage(q)
        r.get_alloc()
    vs = oracles.balance(r)
    return dict(states=T, transitions=T - 1, nontrivial=oracles.has_flow(r), violations=vs, counters={"tag_" + spec.get("tag", "?"): 1})
