"""C12 - program outcomes are a coverage-weighted average of baseline and combination outcomes"""

import itertools
import math
import numpy as np
import atomica as at

from mc.oracles import V
from mc import refprog

LEVEL = "model_checking"
RULE = (
    "For n = 1..4 (quick) / 1..5 (thorough) programs: every effectiveness order (n! permutations realised by distinct |delta|) x every coverage vector on the grid^n x {random, nested, additive}: "
    "the weights w_S of all 2^n-1 program combinations are extracted from the real Covout.get_outcome by finite differences (indicator outcomes) and checked: w >= 0, sum <= 1, marginals = coverage, equal to the reference weights (mc/refprog.py, written from Programs.rst); "
    "plus every outcome table over {b-1, b, b+0.3, b+1}^n (ties, mixed signs) x explicit-interaction subsets x coverage grid: range, baseline at zero coverage, single-program line, monotonicity in every coverage, agreement with the reference outcome. "
    "states = (configuration, coverage vector) pairs, transitions = adjacent coverage pairs compared for monotonicity; non-trivial = coverage vectors with at least two non-zero entries."
)
ASSUMPTIONS = [
    "coverage grid {0,.25,.5,.75,1} (n<=4; thorough adds {0.1,0.6,0.9} for n<=3 and uses {0,.5,1} for n=5): continuous claims are decided on the grid only",
    "tables whose |outcome - baseline| has ties between different programs are excluded from the exact comparison under additive interaction above 100% (tie-breaking of the effectiveness order is unspecified); range/baseline/monotonicity still checked",
    "monotonicity is checked on tables without explicit combination outcomes (an explicit outcome may legitimately be worse than its members)",
]
CASE_TIMEOUT = 900
INTER = ["random", "nested", "additive"]
BASE = 0.2


def grid(n, tier):
    if n == 5:
        return [0.0, 0.5, 1.0]
    if tier == "thorough" and n <= 3:
        return [0.0, 0.1, 0.25, 0.5, 0.6, 0.75, 0.9, 1.0]
    return [0.0, 0.25, 0.5, 0.75, 1.0]


def names(n):
    return [f"P{i}" for i in range(n)]


def cases(tier):
    nmax = 4 if tier == "quick" else 5
    for n in range(1, nmax + 1):
        for inter in INTER:
            for perm in itertools.permutations(range(n)):
                yield dict(kind="weights", n=n, inter=inter, perm=list(perm), tier=tier)
    yield from edit_cases(tier)
    yield from reconcile_cases(tier)
    levels = [BASE - 1, BASE, BASE + 0.3, BASE + 1]
    for n in range(1, (4 if tier == "thorough" else 3) + 1):
        multi = [c for r in range(2, n + 1) for c in itertools.combinations(range(n), r)]
        if len(multi) <= 4:
            imps = [list(s) for r in range(len(multi) + 1) for s in itertools.combinations(range(len(multi)), r)]
        else:
            imps = [[]] + [[i] for i in range(len(multi))] + [list(range(len(multi)))]
        for inter in INTER:
            for table in itertools.product(range(len(levels)), repeat=n):
                for imp in imps:
                    yield dict(kind="table", n=n, inter=inter, table=[levels[i] for i in table], imp=imp, tier=tier)


def edit_cases(tier):
    """histories of in-place edits of one Covout object (outcome / baseline changes followed by update_outcomes(), zero-uncertainty sampling)"""
    vals = [BASE - 1, BASE + 0.05, BASE + 1.5]
    for n in (2, 3):
        ops = [("out", k, v) for k in range(n) for v in vals] + [("base", None, v) for v in (0.0, BASE + 0.6)] + [("sample", None, None), ("callerdict", None, None)]
        depth = 2 if tier == "quick" else 3
        for inter in INTER:
            for d in range(1, depth + 1):
                for hist in itertools.product(range(len(ops)), repeat=d):
                    if tier == "thorough" and d == 3 and n == 3 and hist[0] % 2:
                        continue
                    yield dict(kind="edits", n=n, inter=inter, hist=[list(ops[i]) for i in hist], tier=tier)


def reconcile_cases(tier):
    """the library's own route for changing baselines / outcomes in place: reconciliation"""
    for inter in INTER:
        for groups in ("b", "bo", "ubo"):
            for path in ([1, 3, 0, 2, 5, 4, 1], [0, 0, 1, 1, 2, 2], [3, 2, 1, 0]):
                yield dict(kind="reconciled", inter=inter, groups=groups, path=path)


def run_reconciled(case):
    from mc import simspace
    from mc.build import World
    from mc.asdctl import scripted

    spec = simspace.combined_spec(0.25, v=0.3, dur=1.0, tj=0.2, pa=0.3, d=0.01, br=5.0, prog=True)
    co0 = spec["progs"]["covouts"][0]
    co0["inter"] = case["inter"]
    co0["imp"] = "P1+P2=0.95"
    w = World(spec)
    g = case["groups"]
    with scripted(case["path"]):
        new, _, _ = at.reconcile(w.P, w.parset, w.progset, 2001.0, max_time=1e9, unit_cost_bounds=0.05 if "u" in g else 0.0, baseline_bounds=0.3 if "b" in g else 0.0, outcome_bounds=0.1 if "o" in g else 0.0)
    vs = []
    states = moved = 0
    for key, co in new.covouts.items():
        old = w.progset.covouts[key]
        moved += int(co.baseline != old.baseline or dict(co.progs) != dict(old.progs))
        # an object built from the visible data of the reconciled one (baseline, outcomes, interaction strings)
        fresh = at.Covout(co.par, co.pop, dict(co.progs), cov_interaction=co.cov_interaction, imp_interaction=co.imp_interaction, baseline=co.baseline, uncertainty=0.0)
        nm = list(co.progs)
        for c in itertools.product([0.0, 0.25, 0.5, 1.0], repeat=len(nm)):
            states += 1
            a, b = float(co.get_outcome(cv(nm, c))), float(fresh.get_outcome(cv(nm, c)))
            if abs(a - b) > 1e-9:
                vs.append(V("reconciled-object-differs-from-fresh", f"{case['inter']} reconcile[{g}] path {case['path']}: {key} baseline {old.baseline!r}->{co.baseline!r}: coverage {dict(zip(nm, c))} gives {a!r}, an object built from the same visible data gives {b!r}", None))
                break
    # a reconciliation that moved nothing exercises nothing (counted as a trivial case: the runner's vacuity guard looks at the total)
    return dict(states=states, transitions=1, traces=states, nontrivial=bool(moved), violations=vs[:3], counters=dict(reconciled_sets=1, reconciled_sets_moved=int(bool(moved))))


def run_edits(case):
    out = _run_edits(case, None)
    if not out["violations"]:
        # the same histories with ONE coverage vector evaluated before the first edit and straight after every edit (the situation of a model that
        # asks for the same coverage at every step while the outcomes are being revised): every grid point in turn
        n = case["n"]
        g = [0.0, 0.5, 1.0] if n == 3 else [0.0, 0.25, 0.5, 0.75, 1.0]
        for c in itertools.product(g, repeat=n):
            o2 = _run_edits(case, c)
            out["states"] += o2["states"]
            out["traces"] += o2["states"]
            if o2["violations"]:
                out["violations"] = o2["violations"]
                break
    return out


def _run_edits(case, pinned):
    n, inter = case["n"], case["inter"]
    nm = names(n)
    start = [BASE + 0.9, BASE + 0.5, BASE - 0.3][:n]
    imp = f"{nm[0]}+{nm[1]}={BASE + 0.7!r}"
    callers = dict(zip(nm, start))  # the dictionary the caller built the object from stays the caller's: later edits of it are not edits of the object
    co = at.Covout("par", "pop", callers, cov_interaction=inter, imp_interaction=imp, baseline=BASE, uncertainty=0.0)
    progs = dict(zip(nm, start))
    base = BASE
    vs = []
    states = 0
    g = [0.0, 0.5, 1.0] if n == 3 else [0.0, 0.25, 0.5, 0.75, 1.0]
    if pinned is not None:
        co.get_outcome(cv(nm, pinned))
    for op, k, v in case["hist"]:
        if op == "out":
            co.progs[nm[k]] = v
            progs[nm[k]] = v
            co.update_outcomes()
        elif op == "base":
            # explicit interaction outcomes are stored relative to the baseline: rebuild through the constructor arguments the object exposes
            co.baseline = v
            base = v
            co._interactions = {kk: (BASE + 0.7) - v for kk in co._interactions}
            co.update_outcomes()
        elif op == "callerdict":
            callers[nm[0]] = callers[nm[0]] + 0.37
            co.update_outcomes()
        else:
            np.random.seed(0)
            co.sample()
        fresh = at.Covout("par", "pop", dict(progs), cov_interaction=inter, imp_interaction=imp, baseline=base, uncertainty=0.0)
        for c in itertools.product(g, repeat=n) if pinned is None else [pinned]:
            states += 1
            a, b = float(co.get_outcome(cv(nm, c))), float(fresh.get_outcome(cv(nm, c)))
            if abs(a - b) > 1e-9:
                vs.append(V("edited-object-differs-from-fresh", f"n={n} {inter} after {case['hist']}{' (same coverage evaluated before every edit)' if pinned is not None else ''}: coverage {dict(zip(nm, c))} gives {a!r} but an object built from the same visible data gives {b!r}", None))
                break
        if vs:
            break
    return dict(states=states, transitions=len(case["hist"]), traces=states, nontrivial=True, violations=vs, counters=dict(edit_histories=1))


def cv(nm, c):
    return {k: np.array([float(x)]) for k, x in zip(nm, c)}


def run_weights(case):
    n, inter, perm = case["n"], case["inter"], case["perm"]
    nm = names(n)
    # distinct |delta|, alternating sign so that mixed directions are exercised by the order logic; perm[k] = rank of program k
    mags = [1.0, 0.8, 0.55, 0.35, 0.2]
    deltas = {nm[k]: mags[perm[k]] for k in range(n)}
    singles = {k: BASE + d for k, d in deltas.items()}
    multi = [frozenset(c) for r in range(2, n + 1) for c in itertools.combinations(nm, r)]

    def covout(single_out, ones=()):
        # members are written in a different order for different combinations (the spelling order of an interaction must not matter)
        imp = ",".join("+".join(sorted(S, reverse=bool(k % 2))) + "=" + repr(BASE + (1.0 if S in ones else 0.0)) for k, S in enumerate(multi)) or None
        return at.Covout("par", "pop", dict(single_out), cov_interaction=inter, imp_interaction=imp, baseline=BASE)

    base_co = covout(singles)
    multi_co = {S: covout(singles, ones=(S,)) for S in multi}
    pert = {}
    for k in nm:
        s2 = dict(singles)
        s2[k] = singles[k] + 0.01  # small enough to keep the order (gaps >= 0.15)
        pert[k] = covout(s2)
    order = refprog.effectiveness_order(singles, BASE)
    g = grid(n, case["tier"])
    vs = []
    states = nontriv = 0
    for c in itertools.product(g, repeat=n):
        cov = cv(nm, c)
        states += 1
        if sum(1 for x in c if x > 0) >= 2:
            nontriv += 1
        o0 = float(base_co.get_outcome(cov))
        W = {}
        for S in multi:
            W[S] = float(multi_co[S].get_outcome(cov)) - o0
        for k in nm:
            W[frozenset([k])] = (float(pert[k].get_outcome(cov)) - o0) / 0.01
        tot = sum(W.values())
        bad = None
        if min(W.values()) < -1e-9:
            S = min(W, key=W.get)
            bad = ("negative-weight", f"weight of {sorted(S)} is {W[S]!r}")
        elif tot > 1 + 1e-9:
            bad = ("weights-exceed-one", f"sum of weights {tot!r}")
        else:
            for k, ck in zip(nm, c):
                mrg = sum(w for S, w in W.items() if k in S)
                if abs(mrg - ck) > 1e-7:
                    bad = ("marginal", f"marginal of {k} is {mrg!r} but its coverage is {ck!r}")
                    break
        if bad is None:
            ref = refprog.weights(inter, order, dict(zip(nm, c)))
            for S, w in W.items():
                if abs(w - ref.get(S, 0.0)) > 1e-7:
                    bad = ("weight-differs-from-documented", f"weight of {sorted(S)} is {w!r}, documented rule gives {ref.get(S, 0.0)!r}")
                    break
        if bad:
            vs.append(V(bad[0], f"n={n} {inter} order={order} coverage={dict(zip(nm, c))}: {bad[1]}", dict(cov=list(c))))
            if len(vs) >= 3:
                break
    return dict(states=states, transitions=0, traces=states, nontrivial=nontriv > 0, violations=vs, counters=dict(weight_vectors=states, weight_vectors_nontrivial=nontriv, get_outcome_calls=states * (len(multi) + n + 1)), digest=f"w-{n}-{inter}-{perm}")


def run_table(case):
    n, inter, table, impsel = case["n"], case["inter"], case["table"], case["imp"]
    nm = names(n)
    progs = dict(zip(nm, table))
    multi = [c for r in range(2, n + 1) for c in itertools.combinations(nm, r)]
    explicit_vals = [BASE + 0.6, BASE - 0.4, BASE + 1.2, BASE + 0.1]
    imp = ",".join("+".join(multi[i] if j % 2 else tuple(reversed(multi[i]))) + "=" + repr(explicit_vals[j % 4]) for j, i in enumerate(impsel)) or None
    co = at.Covout("par", "pop", dict(progs), cov_interaction=inter, imp_interaction=imp, baseline=BASE)
    spec = dict(base=BASE, progs=progs, inter=inter, imp=imp)
    allvals = [BASE] + list(table) + [explicit_vals[j % 4] for j, _ in enumerate(impsel)]
    lo, hi = min(allvals), max(allvals)
    mags = [abs(v - BASE) for v in table]
    ties = len(set(mags)) < len(mags)
    same_dir = all(v >= BASE for v in table) or all(v <= BASE for v in table)
    up = all(v >= BASE for v in table)
    g = grid(n, case["tier"])
    vs = []
    states = trans = 0
    vals = {}
    for c in itertools.product(g, repeat=n):
        cov = cv(nm, c)
        o = float(co.get_outcome(cov))
        vals[c] = o
        states += 1
        bad = None
        if not (lo - 1e-9 <= o <= hi + 1e-9):
            bad = ("out-of-range", f"outcome {o!r} outside [{lo!r}, {hi!r}]")
        elif sum(c) == 0 and abs(o - BASE) > 1e-12:
            bad = ("baseline", f"zero coverage gives {o!r}, baseline is {BASE!r}")
        elif sum(1 for x in c if x > 0) == 1:
            i = [j for j, x in enumerate(c) if x > 0][0]
            e = BASE + c[i] * (table[i] - BASE)
            if abs(o - e) > 1e-9:
                bad = ("single-program", f"only {nm[i]} covered at {c[i]!r}: got {o!r}, baseline + c*(outcome-baseline) = {e!r}")
        if bad is None and not (ties and inter == "additive" and sum(c) > 1):
            e = refprog.covout_outcome(spec, dict(zip(nm, c)))
            if abs(o - e) > 1e-9:
                bad = ("outcome-differs-from-documented", f"got {o!r}, documented rule gives {e!r}")
        if bad:
            vs.append(V(bad[0], f"n={n} {inter} outcomes={progs} imp={imp} coverage={dict(zip(nm, c))}: {bad[1]}", dict(cov=list(c))))
            if len(vs) >= 3:
                break
    if same_dir and not impsel and not vs:
        for c in vals:
            for i in range(n):
                j = g.index(c[i])
                if j + 1 < len(g):
                    c2 = c[:i] + (g[j + 1],) + c[i + 1 :]
                    trans += 1
                    d = vals[c2] - vals[c]
                    if (up and d < -1e-12) or (not up and d > 1e-12):
                        vs.append(V("not-monotone", f"n={n} {inter} outcomes={progs}: raising coverage of {nm[i]} from {c[i]} to {c2[i]} (others {c}) moves the outcome from {vals[c]!r} to {vals[c2]!r}", None))
                        break
            if vs:
                break
    return dict(states=states, transitions=trans, traces=states, nontrivial=n >= 2, violations=vs[:3], counters=dict(table_vectors=states, monotone_pairs=trans))


def run_case(case):
    return dict(weights=run_weights, table=run_table, edits=run_edits, reconciled=run_reconciled)[case["kind"]](case)
