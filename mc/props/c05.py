"""C05 - timed compartments release every cohort exactly when its duration expires"""

import itertools
import math
import numpy as np
from atomica.model import TimedCompartment, TimedLink, JunctionCompartment

from mc import simspace, refsim, conform
from mc.oracles import V
from mc.build import run_spec

LEVEL = "model_checking"
RULE = (
    "(D, dt) pairs with D/dt integer (written k*dt, k/(1/dt), as a decimal literal and as a fraction such as 5/12), non-integer, < 1 and >> 1 x ALL inflow histories over {0, 30, 70} up to the stated length "
    "x extra ordinary outflow {none, 0.3, over-draw} x initial occupancy {0, 60}, plus duration groups (direct link, through a junction) and two populations with different D joined by a transfer; "
    "each run is compared bin-by-bin with the reference cohort model (mc/refsim.py) and the property's inequalities are evaluated on observables at every index. "
    "Non-trivial = some cohort both enters and is flushed within the run."
)
ASSUMPTIONS = [
    "n = max(1, ceil(D/dt)) with D/dt taken as an integer when within 1e-9 of one (the property's 'up to rounding error')",
    "bounds: inflow histories of length <= 4 (quick) / 5 (thorough) over 3 levels; <= 3 compartments per duration group; <= 2 populations",
    "calibration factors on the timed parameter: 4 (population, all-population) factor pairs on a ninth of the histories (quick) and on the structure family",
]
CASE_TIMEOUT = 60
LEVELS = [0.0, 30.0, 70.0]


def dvariants(dt, tier):
    out = {}
    ks = [1, 2, 3, 5] if tier == "quick" else [1, 2, 3, 4, 5, 6]
    for k in ks:
        for lab, D in ((f"{k}*dt", k * dt), (f"{k}/(1/dt)", k / (1 / dt)), (f"lit{k}", float(repr(round(k * dt, 12))))):
            out.setdefault(D, lab)
    if abs(dt - 1 / 12) < 1e-12:
        out.setdefault(5 / 12, "5/12")
        out.setdefault(7 / 12, "7/12")
    for f in (0.4, 1.5, 2.5) + ((20.0, 0.999, 3.3) if tier == "thorough" else ()):
        out.setdefault(f * dt, f"{f}dt")
    # "k steps up to rounding error" is not quantified by the property: ratios whose distance to an integer is neither clearly rounding error
    # (< 2e-10) nor clearly a fraction of a step (> 1e-6) get no verdict and are not generated
    def decided(D):
        x = D / dt
        return not (2e-10 < abs(x - round(x)) / max(1.0, abs(x)) < 1e-6)

    return [(lab, D) for D, lab in out.items() if decided(D)]


def histories(tier):
    L = 4 if tier == "quick" else 5
    return itertools.product(LEVELS, repeat=L)


def hist_spec(dt, D, hist, extra, ainit, dfn=False):
    n = max(1, refsim.nsteps(D / dt))
    steps = len(hist) + n + 2
    start = simspace.START
    spec = dict(
        comps=[dict(name="a", kind="ord", init=ainit), dict(name="b", kind="ord", init=0.0), dict(name="src", kind="src")],
        pars=[dict(name="dur", fmt="duration", val=D, timed=True), dict(name="inn", fmt="number", val={"t": [start + k * dt for k in range(len(hist) + 1)], "v": [h / dt for h in hist] + [0.0]})],
        links=[["a", "b", "dur"], ["src", "a", "inn"]],
        characs=[dict(name="alive", comps=["a", "b"])],
        pops=["pa"],
        sim=[start, start + steps * dt, dt],
        years=[start],
        tag="history",
    )
    if extra is not None:
        spec["comps"].append(dict(name="c", kind="ord", init=0.0))
        spec["pars"].append(dict(name="ex", fmt="probability", val=(0.3 if extra == 0.3 else 3 / dt)))
        spec["links"].append(["a", "c", "ex"])
        spec["characs"][0]["comps"].append("c")
    spec["timed"] = dict(struct="history", D=D, extra=extra, ainit=ainit, hist=list(hist))
    if dfn:
        # the duration is the value of a function (2 * half); the databook entry of the duration itself says something else
        spec["pars"][0] = dict(name="dur", fmt="duration", val=D * 3 + dt, fn="2*half", timed=True)
        spec["pars"].append(dict(name="half", fmt="number", val=D / 2))
        spec["timed"]["dfn"] = True
    return spec


def cases(tier):
    dts = [1 / 12, 0.25, 0.3] if tier == "quick" else [1 / 12, 0.25, 0.1, 0.3, 1.0, 1 / 52]
    for dt in dts:
        for lab, D in dvariants(dt, tier):
            for extra in (None, 0.3, "over"):
                for ainit in (0.0, 60.0):
                    for h in histories(tier):
                        yield hist_spec(dt, D, h, extra, ainit)
    # duration defined by a parameter function
    for dt in dts[:2]:
        for lab, D in dvariants(dt, tier):
            for h in histories(tier):
                yield hist_spec(dt, D, h, 0.3, 60.0, dfn=True)
    # calibrated durations: the maximum stay is the parameter's VALUE (databook entry x population factor x all-population factor)
    import copy as _copy

    for dt in dts[:2]:
        for lab, D in dvariants(dt, tier):
            for yf, myf in ((2.0, None), (None, 0.5), (0.5, 3.0), (1.5, None)):
                for h in list(histories(tier))[:: 9 if tier == "quick" else 3]:
                    for dfn in (False, True):
                        sp = hist_spec(dt, D, h, 0.3, 60.0, dfn=dfn)
                        sp["pars"][0].update(yf=yf, myf=myf)
                        f = (yf or 1.0) * (myf or 1.0)
                        n = max(1, refsim.nsteps(D * f / dt))
                        sp["sim"][1] = sp["sim"][0] + (len(h) + n + 2) * dt
                        sp["timed"]["factors"] = [yf, myf]
                        yield sp
    for spec in simspace.timed(tier):
        if spec["timed"]["extra"] == 0.3 and spec["timed"]["ainit"] == 60.0 and spec["timed"]["D"] in ("3dt", "2.5dt"):
            for yf, myf in ((2.0, None), (0.5, 1.5)):
                s2 = _copy.deepcopy(spec)
                for q in s2["pars"]:
                    if q.get("timed"):
                        q.update(yf=yf, myf=myf)
                s2["timed"]["factors"] = [yf, myf]
                yield s2
    yield from simspace.timed(tier)
    # people who start the run inside a junction that belongs to the duration group (the initial flush spreads them like any initial occupants)
    import copy

    for spec in simspace.timed(tier):
        if spec["timed"]["struct"] in ("group_junction", "group_junction2", "group_resjunction") and spec["timed"]["extra"] in (None, 0.3):
            s2 = copy.deepcopy(spec)
            for c in s2["comps"]:
                if c["name"] == "jt":
                    c.pop("default", None)
                    c["init"] = 40.0
            s2["timed"]["jinit"] = 40.0
            yield s2


def group_members(r, pop, gname):
    return [c for c in pop.comps if (isinstance(c, TimedCompartment) and c.parameter.name == gname) or (isinstance(c, JunctionCompartment) and c.duration_group == gname)]


def cohort_inequalities(spec, r, tol=1e-9):
    m = r.model
    dt = m.dt
    T = len(m.t)
    out = []
    flushed = False
    for pop in m.pops:
        groups = {c.parameter.name for c in pop.comps if isinstance(c, TimedCompartment)}
        for g in groups:
            mem = group_members(r, pop, g)
            names = {c.name for c in mem}
            par = pop.get_par(g)
            D = par.vals[0] * par.timescale
            n = max(1, refsim.nsteps(D / dt))
            tc = [c for c in mem if isinstance(c, TimedCompartment)]
            if any(isinstance(l, TimedLink) and l.source.pop is not pop for c in mem for l in c.inlinks):
                # people arrive from the same duration group of another population with their elapsed time preserved:
                # the per-population cohort bounds do not apply (the bin-by-bin comparison with the reference model does)
                continue
            for c in tc:
                if c._vals.shape[0] != n:
                    out.append(V("bin-count", f"{pop.name}/{c.name}: duration {D!r} with dt {dt!r} must give {n} elapsed-time bins, got {c._vals.shape[0]}", None))
            occ = sum(np.asarray(c.vals) for c in tc)
            arrivals = np.zeros(T)
            leak = np.zeros(T)  # leaves the group other than through the timed outflow
            flush = np.zeros(T)
            for c in mem:
                for l in c.inlinks:
                    if not (l.source.pop is pop and l.source.name in names):
                        arrivals += np.asarray(l.vals)
                for l in c.outlinks:
                    if isinstance(c, TimedCompartment) and c.flush_link is l:
                        flush += np.asarray(l.vals)
                    elif not (l.dest.pop is pop and l.dest.name in names):
                        leak += np.asarray(l.vals)
            init = float(occ[0])
            for i in range(T - 1):
                lo = max(0, i - n)
                bound = arrivals[lo:i].sum() + init * max(0, n - i) / n
                if occ[i] > bound * (1 + tol) + 1e-9:
                    out.append(V("stays-too-long", f"{pop.name} group {g} index {i}: occupancy {occ[i]!r} exceeds arrivals of the preceding {n} steps + unexpired initial share = {bound!r}", dict(index=i)))
                    break
                cohort = (arrivals[i - n] if i - n >= 0 else 0.0) + (init / n if i < n else 0.0)
                if flush[i] > cohort * (1 + tol) + 1e-9:
                    out.append(V("leaves-early", f"{pop.name} group {g} step {i}: timed outflow {flush[i]!r} exceeds the cohort that expires now ({cohort!r})", dict(index=i)))
                    break
                if not leak.any() and abs(flush[i] - cohort) > tol * max(1.0, cohort):
                    out.append(V("not-released-on-expiry", f"{pop.name} group {g} step {i}: timed outflow {flush[i]!r} but the cohort expiring now is {cohort!r} and there is no other outflow", dict(index=i)))
                    break
                if cohort > 0 and i - n >= 0 and flush[i] > 0:
                    flushed = True
            if n == 1:
                # duration shorter than (or equal to) one step: the compartment empties every step
                for c in tc:
                    v = np.asarray(c.vals)[:-1]
                    o = sum(np.asarray(l.vals) for l in c.outlinks)[:-1]
                    if not np.allclose(v, o, rtol=1e-9, atol=1e-12):
                        out.append(V("not-emptied", f"{pop.name}/{c.name}: one-bin timed compartment is not emptied every step", None))
    return out, flushed


def run_case(spec):
    w, r = run_spec(spec)
    tr = refsim.simulate(spec)
    vs = conform.compare(tr, r, what=("t", "comp", "rows", "link", "linkrows"))
    ineq, flushed = cohort_inequalities(spec, r)
    T = len(tr.t)
    return dict(states=T, transitions=T - 1, traces=1, nontrivial=flushed, violations=(vs + ineq)[:6], counters={"tag_" + spec.get("tag", "?"): 1})
