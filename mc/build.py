"""
Model specification (plain JSON-serialisable dicts) -> real atomica objects, built in memory.

Spec keys (all optional except comps/pars/links/sim):

  comps   : [{name, kind: ord|src|sink|junc, init: V|None, default: number|None}]
  pars    : [{name, fmt: probability|rate|duration|number|proportion|None, ts: timescale|None, fn: str|None,
              timed: bool, targ: bool, min, max, val: V|None, yf: number|{pop:number}, myf: number}]
  links   : [[src, dst, par]]           par '>' marks the residual outflow of a junction
  characs : [{name, comps: [..], denom: name|None, val: V|None, default: number|None}]
  pops    : [name, ...]                 (default ['pa'])
  transfers    : [{name, units: rate|number|duration|probability, pairs: {'pa>pb': V}}]
  interactions : [{name, pairs: {'pa>pb': V}}]
  sim     : [start, end, dt]
  years   : databook years (default [start, start+1, start+2])
  progs   : {progs: [{name, pops, comps, spend: V, uc: V, cap: V|None, sat: V|None, cov: V|None, oneoff: bool, cap_abs: bool}],
             covouts: [{par, pop, base, progs: {name: outcome}, inter: additive|random|nested, imp: str|None}],
             instr: {start, stop, alloc: {prog: V}, coverage: {prog: V}, capacity: {prog: V}} | None,
             years: [...]}

  V = number (constant assumption) | {"t": [...], "v": [...]} (time series) | {pop: V} (per population)
"""

import warnings

warnings.filterwarnings("ignore")

import numpy as np
import pandas as pd
import atomica as at

at.logger.setLevel(50)

UNITS = dict(rate="Rate (per year)", number="Number (per year)", duration="Duration (years)", probability="Probability (per year)")


def _df(rows, cols):
    return pd.DataFrame.from_records(rows, columns=cols)


def yn(b):
    return "y" if b else "n"


def vfor(v, pop):
    """Resolve a V for a population -> number or {"t":[..],"v":[..]} or None"""
    if isinstance(v, dict) and "t" not in v:
        return v.get(pop)
    return v


def fill_ts(ts, v):
    if v is None:
        return
    if isinstance(v, dict):
        for t, x in zip(v["t"], v["v"]):
            ts.insert(t, x)
    else:
        ts.insert(None, v)


def make_ts(v, units=None):
    ts = at.TimeSeries(units=units)
    fill_ts(ts, v)
    return ts


def timed_comps(spec):
    """{comp name: timed parameter name} derived from links carrying a timed parameter"""
    timed = {p["name"] for p in spec["pars"] if p.get("timed")}
    return {s: p for s, d, p in spec["links"] if p in timed}


def build_framework(spec):
    F = at.ProjectFramework()
    F.sheets["about"] = [_df([("mc", "generated")], ["name", "description"])]
    ptypes = spec.get("ptypes")  # optional: [type code names]; items carry "ptype" (default: the first type)
    if ptypes:
        F.sheets["population types"] = [_df([(t, "Type " + t) for t in ptypes], ["code name", "description"])]
    comps = []
    for c in spec["comps"]:
        k = c.get("kind", "ord")
        page = "cp" if (c.get("init") is not None or c.get("page")) else None
        comps.append((c["name"], "C " + c["name"], yn(k == "sink"), yn(k == "src"), yn(k == "junc"), page, c.get("default"), c.get("ptype")))
    F.sheets["compartments"] = [_df(comps, ["code name", "display name", "is sink", "is source", "is junction", "databook page", "default value", "population type"])]
    pars = []
    for p in spec["pars"]:
        page = "pp" if (p.get("val") is not None or p.get("page")) else None
        pars.append((p["name"], "P " + p["name"], p.get("fmt"), p.get("fn"), page, p.get("ts"), yn(p.get("timed")), yn(p.get("targ")), p.get("min"), p.get("max"), yn(p.get("deriv")), p.get("ptype"), p.get("default")))
    F.sheets["parameters"] = [_df(pars, ["code name", "display name", "format", "function", "databook page", "timescale", "timed", "targetable", "minimum value", "maximum value", "is derivative", "population type", "default value"])]
    mats = []
    for t in ptypes or [None]:
        names = [c["name"] for c in spec["comps"] if (not ptypes) or (c.get("ptype") or ptypes[0]) == t]
        m = pd.DataFrame(None, index=names, columns=names, dtype=object)
        for s, d, p in spec["links"]:
            if s not in names:
                continue
            cur = m.at[s, d]
            m.at[s, d] = p if cur is None or (isinstance(cur, float) and np.isnan(cur)) else f"{cur},{p}"
        m = m.reset_index()
        m.columns = [t] + names
        mats.append(m)
    F.sheets["transitions"] = mats
    ch = []
    for c in spec.get("characs", []):
        page = "cp" if (c.get("val") is not None or c.get("page")) else None
        ch.append((c["name"], "X " + c["name"], ",".join(c["comps"]), c.get("denom"), page, c.get("default"), c.get("ptype")))
    F.sheets["characteristics"] = [_df(ch, ["code name", "display name", "components", "denominator", "databook page", "default value", "population type"])]
    if spec.get("interactions"):
        F.sheets["interactions"] = [_df([(i["name"], "I " + i["name"], i.get("default")) for i in spec["interactions"]], ["code name", "display name", "default value"])]
    if spec.get("cascades"):
        F.sheets["cascades"] = [_df(stages, [name, "constituents"]) for name, stages in spec["cascades"].items()]
    F.sheets["databook pages"] = [_df([("cp", "Comps"), ("pp", "Pars")], ["datasheet code name", "datasheet title"])]
    F._validate()
    return F


def build_data(spec, F):
    start = spec["sim"][0]
    years = spec.get("years") or [start, start + 1, start + 2]
    pops = spec.get("pops") or ["pa"]
    ptype_of = spec.get("pop_types") or {}
    popspec = {p: ({"label": "Pop " + p, "type": ptype_of[p]} if p in ptype_of else "Pop " + p) for p in pops}
    D = at.ProjectData.new(F, np.array(years, dtype=float), pops=popspec, transfers={t["name"]: ({"label": "T " + t["name"], "type": t["ptype"]} if t.get("ptype") else "T " + t["name"]) for t in spec.get("transfers", [])})
    for c in spec["comps"]:
        if c.get("init") is not None:
            for pop, ts in D.tdve[c["name"]].ts.items():
                fill_ts(ts, vfor(c["init"], pop))
    for c in spec.get("characs", []):
        if c.get("val") is not None:
            for pop, ts in D.tdve[c["name"]].ts.items():
                fill_ts(ts, vfor(c["val"], pop))
    for p in spec["pars"]:
        if p.get("val") is not None:
            for pop, ts in D.tdve[p["name"]].ts.items():
                fill_ts(ts, vfor(p["val"], pop))
                if p.get("sigma") is not None:
                    ts.sigma = p["sigma"]
    for i, t in enumerate(spec.get("transfers", [])):
        tdc = D.transfers[i]
        for pair, v in t["pairs"].items():
            a, b = pair.split(">")
            tdc.ts[(a, b)] = make_ts(v, UNITS[t.get("units", "rate")])
            if t.get("sigma") is not None:
                tdc.ts[(a, b)].sigma = t["sigma"]
    for i, t in enumerate(spec.get("interactions", [])):
        tdc = D.interpops[i]
        for pair, v in t["pairs"].items():
            a, b = pair.split(">")
            tdc.ts[(a, b)] = make_ts(v, "N.A.")
            if t.get("sigma") is not None:
                tdc.ts[(a, b)].sigma = t["sigma"]
    return D


def build_progset(spec, F, D):
    ps_spec = spec.get("progs")
    if not ps_spec:
        return None, None
    start = spec["sim"][0]
    years = ps_spec.get("years") or [start, start + 1]
    ps = at.ProgramSet.new(tvec=np.array(years, dtype=float), progs={p["name"]: "Prog " + p["name"] for p in ps_spec["progs"]}, framework=F, data=D)
    for p in ps_spec["progs"]:
        prog = ps.programs[p["name"]]
        prog.target_pops = list(p["pops"])
        prog.target_comps = list(p["comps"])
        prog.spend_data = make_ts(p.get("spend"), "$/year")
        prog.unit_cost = make_ts(p.get("uc"), "$/person (one-off)" if p.get("oneoff") else "$/person/year")
        if p.get("cap") is not None:
            prog.capacity_constraint = make_ts(p["cap"], "people" if p.get("cap_abs") else "people/year")
        if p.get("sat") is not None:
            prog.saturation = make_ts(p["sat"], "N.A.")
        if p.get("cov") is not None:
            prog.coverage = make_ts(p["cov"], "people/year")
        for attr in ("spend", "uc"):
            if p.get(attr + "_sigma") is not None:
                (prog.spend_data if attr == "spend" else prog.unit_cost).sigma = p[attr + "_sigma"]
    for c in ps_spec.get("covouts", []):
        ps.covouts[(c["par"], c["pop"])] = at.Covout(c["par"], c["pop"], dict(c["progs"]), cov_interaction=c.get("inter", "additive"), imp_interaction=c.get("imp"), baseline=c["base"], uncertainty=c.get("sigma", 0.0))
    ins = None
    i = ps_spec.get("instr")
    if i:
        kw = {}
        for k in ("alloc", "coverage", "capacity"):
            if i.get(k):
                kw[k] = {name: (make_ts(v) if isinstance(v, dict) else v) for name, v in i[k].items()}
        ins = at.ProgramInstructions(start_year=i["start"], stop_year=i.get("stop"), **kw)
    return ps, ins


def apply_factors(spec, parset):
    for p in spec["pars"]:
        if p["name"] not in parset.pars:
            continue
        par = parset.pars[p["name"]]
        yf = p.get("yf")
        if yf is not None:
            for pop in par.pops:
                par.y_factor[pop] = yf[pop] if isinstance(yf, dict) else yf
        if p.get("myf") is not None:
            par.meta_y_factor = p["myf"]
    for kind, store in (("transfers", parset.transfers), ("interactions", parset.interactions)):
        for t in spec.get(kind, []):
            if t.get("yf") is None and t.get("myf") is None:
                continue
            for src, par in store[t["name"]].items():
                for dst in par.pops:
                    yf = t.get("yf")
                    if yf is not None:
                        par.y_factor[dst] = yf.get(f"{src}>{dst}", 1.0) if isinstance(yf, dict) else yf
                if t.get("myf") is not None:
                    par.meta_y_factor = t["myf"]
    for c in list(spec["comps"]) + list(spec.get("characs", [])):
        if c.get("yf") is not None and c["name"] in parset.pars:
            par = parset.pars[c["name"]]
            for pop in par.pops:
                par.y_factor[pop] = c["yf"][pop] if isinstance(c["yf"], dict) else c["yf"]
        if c.get("myf") is not None and c["name"] in parset.pars:
            parset.pars[c["name"]].meta_y_factor = c["myf"]


class World:
    """Everything built from one spec"""

    def __init__(self, spec, with_progs=True):
        self.spec = spec
        self.F = build_framework(spec)
        self.D = build_data(spec, self.F)
        self.P = at.Project(framework=self.F, databook=self.D, do_run=False)
        s, e, dt = spec["sim"]
        self.P.settings.update_time_vector(start=s, end=e, dt=dt)
        self.parset = self.P.parsets[0]
        apply_factors(spec, self.parset)
        self.progset, self.instr = build_progset(spec, self.F, self.D) if with_progs else (None, None)

    def scenario_parset(self):
        """parset with the spec's parameter scenario(s) applied (one ParameterScenario per interpolation method)"""
        ps = self.parset
        # scenarios applied EARLIER to the same parameter set (the spec's "scen" entries are applied on top of them)
        for sc_ in self.spec.get("scen_first", []):
            scen = at.ParameterScenario(name="first", interpolation=sc_.get("interp", "linear"))
            scen.add(sc_["par"], sc_["pop"], list(sc_["t"]), list(sc_["y"]))
            ps = scen.get_parset(ps, self.P)
        by = {}
        for sc_ in self.spec.get("scen", []):
            by.setdefault(sc_.get("interp", "linear"), []).append(sc_)
        for interp, lst in by.items():
            scen = at.ParameterScenario(name="scen", interpolation=interp)
            for sc_ in lst:
                scen.add(sc_["par"], sc_["pop"] if "pop2" not in sc_ else (sc_["pop"], sc_["pop2"]), list(sc_["t"]), list(sc_["y"]))
            ps = scen.get_parset(ps, self.P)
        return ps

    def run(self, progs=True, parset=None, via=None):
        """via (or spec["via"]): None = Project.run_sim; "pickle" / "deepcopy" = the model is built, copied that way, and the COPY is integrated
        (what the optimiser does with every model it evaluates); "copy_after_read" = additionally every reported quantity of the built model
        is read once before it is integrated (reading must not change anything)."""
        if parset is None and self.spec.get("scen"):
            parset = self.scenario_parset()
        ps, ins = (self.progset, self.instr) if progs else (None, None)
        via = via or self.spec.get("via")
        if not via:
            return self.P.run_sim(parset or self.parset, ps, ins, store_results=False)
        import pickle
        import sciris as sc
        from atomica.model import Model
        from atomica.results import Result

        parset = parset or self.parset
        m = Model(self.P.settings, self.F, parset, ps, ins)
        if via == "pickle":
            m = pickle.loads(pickle.dumps(m))
        elif via == "deepcopy":
            m = sc.dcp(m)
        elif via == "read_first":
            for pop in m.pops:
                for v in list(pop.comps) + list(pop.characs) + list(pop.pars) + list(pop.links):
                    v.vals  # noqa
        else:
            raise ValueError(via)
        m.process()
        return Result(model=m, parset=parset, name="via_" + via)


def run_spec(spec, progs=True):
    w = World(spec, with_progs=progs)
    return w, w.run(progs=progs)
