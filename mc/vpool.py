"""
Virtual fork pool (DESIGN.md 4.6): replaces multiprocessing.pool.Pool (atomica.utils.parallel_progress) and
sc.parallelize (Ensemble.run_sims) for the duration of one execution, reproducing fork semantics for the state that matters:

  * at construction the parent's global numpy generator state and `random` state are snapshotted; every one of the W
    virtual workers starts from a copy (that is what a forked child inherits) and then runs the REAL initializer;
  * each task's function and arguments are pickled and unpickled (as the real pool does when it ships a task), so a task
    cannot modify the parent's objects; results are pickled back;
  * when the pool is joined, the explorer's SCHEDULE (job index -> worker) decides which worker runs which job; jobs of one
    worker run in submission order and share that worker's generator state.

The schedule enumerator yields all assignments up to worker renaming (set partitions of the jobs into <= W blocks).
"""

import pickle
import random
from contextlib import contextmanager

import numpy as np


def schedules(n_jobs, n_workers):
    """restricted growth strings of length n_jobs with at most n_workers distinct values"""

    def rec(prefix, used):
        if len(prefix) == n_jobs:
            yield tuple(prefix)
            return
        for w in range(min(used + 1, n_workers)):
            yield from rec(prefix + [w], max(used, w + 1))

    yield from rec([], 0)


class _Handle:
    def __init__(self):
        self.value = None
        self.error = None

    def get(self, timeout=None):
        if self.error is not None:
            raise self.error
        return self.value

    def ready(self):
        return True

    def successful(self):
        return self.error is None


def _library_generators():
    """generator objects held at module level by the library (a forked worker inherits a COPY of each of them, exactly as it inherits
    the state of the global generators)"""
    import sys

    out = []
    for name, mod in list(sys.modules.items()):
        if name == "atomica" or name.startswith("atomica."):
            for k, v in list(vars(mod).items()):
                if isinstance(v, (np.random.Generator, np.random.RandomState)) and not any(v is g for g in out):
                    out.append(v)
    return out


def _gstate(g):
    import copy

    return copy.deepcopy(g.bit_generator.state if isinstance(g, np.random.Generator) else g.get_state())


def _gset(g, st):
    if isinstance(g, np.random.Generator):
        g.bit_generator.state = st
    else:
        g.set_state(st)


class VPool:
    schedule = None  # set by the explorer before the library creates the pool
    log = None

    def __init__(self, processes=None, initializer=None, initargs=()):
        self.n = processes
        self.jobs = []
        self.np_state = np.random.get_state()
        self.py_state = random.getstate()
        self.gens = _library_generators()
        self.gen_states = [_gstate(g) for g in self.gens]
        self.workers = []
        for w in range(self.n):
            ctx = dict(np=self.np_state, py=self.py_state, gens=[_gstate(g) for g in self.gens])
            if initializer is not None:
                self._in_worker(ctx, initializer, initargs, {})
            self.workers.append(ctx)

    def _in_worker(self, ctx, fn, args, kwargs):
        save_np, save_py = np.random.get_state(), random.getstate()
        save_g = [_gstate(g) for g in self.gens]
        np.random.set_state(ctx["np"])
        random.setstate(ctx["py"])
        for g, st in zip(self.gens, ctx["gens"]):
            _gset(g, st)
        try:
            return fn(*args, **kwargs)
        finally:
            ctx["np"], ctx["py"] = np.random.get_state(), random.getstate()
            ctx["gens"] = [_gstate(g) for g in self.gens]
            np.random.set_state(save_np)
            random.setstate(save_py)
            for g, st in zip(self.gens, save_g):
                _gset(g, st)

    def apply_async(self, func, args=(), kwds=None, callback=None, error_callback=None):
        h = _Handle()
        self.jobs.append((pickle.dumps((func, args, kwds or {})), callback, h))
        return h

    def close(self):
        pass

    def terminate(self):
        pass

    def join(self):
        sched = VPool.schedule or tuple(i % self.n for i in range(len(self.jobs)))
        assert len(sched) == len(self.jobs), "schedule length does not match the number of submitted jobs"
        assert max(sched) < self.n, "schedule uses more workers than the pool has"
        if VPool.log is not None:
            VPool.log.append(dict(workers=self.n, jobs=len(self.jobs), schedule=list(sched)))
        for i, (blob, callback, h) in enumerate(self.jobs):
            func, args, kwds = pickle.loads(blob)
            try:
                out = self._in_worker(self.workers[sched[i]], func, args, kwds)
                h.value = pickle.loads(pickle.dumps(out))
                if callback:
                    callback(h.value)
            except Exception as e:  # delivered through .get() as the real pool does
                h.error = e
        self.jobs = []

    def __enter__(self):
        return self

    def __exit__(self, *a):
        return False


@contextmanager
def virtual_pools(schedule, n_workers_for_parallelize=None):
    """Patch multiprocessing.pool.Pool and sciris.parallelize for the duration of one execution"""
    import multiprocessing.pool as mpp
    import sciris as sc
    import atomica.results as ares

    VPool.schedule = tuple(schedule) if schedule is not None else None
    VPool.log = []
    old_pool = mpp.Pool
    old_par = sc.parallelize

    def vparallelize(func, iterarg=None, iterkwargs=None, args=None, kwargs=None, ncpus=None, **kw):
        # models sc.parallelize with the default (fork pool, no re-seeding) parallelizer
        if isinstance(iterarg, int):
            tasks = [((), {}) for _ in range(iterarg)]
        elif iterkwargs is not None:
            tasks = [((), dict(k)) for k in iterkwargs]
        else:
            tasks = [((x,), {}) for x in iterarg]
        W = n_workers_for_parallelize or (max(VPool.schedule) + 1 if VPool.schedule else len(tasks))
        pool = VPool(W)
        hs = [pool.apply_async(func, args=tuple(a) + tuple(args or ()), kwds=dict(kwargs or {}, **k)) for a, k in tasks]
        pool.close()
        pool.join()
        return [h.get() for h in hs]

    mpp.Pool = VPool
    sc.parallelize = vparallelize
    try:
        yield VPool.log
    finally:
        mpp.Pool = old_pool
        sc.parallelize = old_par
        VPool.schedule = None
