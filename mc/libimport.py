"""
Importer: a loaded library project (framework + parameter set + settings) -> model spec for the reference simulator.
Only the *numbers* and the structure are taken from the loaded objects; functions are handed over as strings and re-parsed by the
reference simulator's own evaluator.  The initial compartment sizes are taken from the implementation's index 0 (initialisation is
C07's subject), everything after that is recomputed independently.
"""

import numpy as np
import pandas as pd


def _none(x):
    if x is None:
        return None
    if isinstance(x, float) and np.isnan(x):
        return None
    try:
        if pd.isna(x):
            return None
    except (TypeError, ValueError):
        pass
    return x


def ts_to_v(ts):
    """TimeSeries -> V (number | {"t","v"} | None) following the documented interpolation inputs"""
    t = [float(a) for a, b in zip(ts.t, ts.vals) if a is not None and b is not None and np.isfinite(a) and np.isfinite(b)]
    v = [float(b) for a, b in zip(ts.t, ts.vals) if a is not None and b is not None and np.isfinite(a) and np.isfinite(b)]
    if t:
        return {"t": t, "v": v}
    if ts.assumption is not None and np.isfinite(ts.assumption):
        return float(ts.assumption)
    return None


class Unsupported(Exception):
    pass


def spec_from_project(P, parset, result):
    F = P.framework
    if len(F.pop_types) > 1:
        raise Unsupported("several population types")
    pops = list(parset.pop_names)
    m = result.model
    spec = dict(comps=[], pars=[], links=[], characs=[], pops=pops, sim=[float(P.settings.sim_start), float(P.settings.sim_end), float(P.settings.sim_dt)], tag="library")
    for name, row in F.comps.iterrows():
        kind = "sink" if row["is sink"] == "y" else "src" if row["is source"] == "y" else "junc" if row["is junction"] == "y" else "ord"
        c = dict(name=name, kind=kind)
        if kind == "ord":
            c["init"] = {pop: float(np.asarray(m.get_pop(pop).get_comp(name).vals)[0]) for pop in pops}
        elif kind == "junc":
            c["default"] = 0
        spec["comps"].append(c)
    for name, row in F.pars.iterrows():
        if _none(row.get("is derivative")) == "y":
            raise Unsupported("derivative parameter")
        p = dict(name=name, fmt=_none(row["format"]), ts=_none(row["timescale"]), fn=_none(row["function"]), timed=row["timed"] == "y", min=_none(row["minimum value"]), max=_none(row["maximum value"]))
        if p["ts"] is not None:
            p["ts"] = float(p["ts"])
        for k in ("min", "max"):
            if p[k] is not None:
                p[k] = float(p[k])
                if not np.isfinite(p[k]):
                    p[k] = None
        if name in parset.pars:
            par = parset.pars[name]
            val = {}
            for pop in pops:
                if pop in par.ts:
                    v = ts_to_v(par.ts[pop])
                    if v is not None:
                        val[pop] = v
            p["val"] = val or None
            p["yf"] = {pop: float(par.y_factor[pop]) for pop in pops if pop in par.y_factor}
            p["myf"] = float(par.meta_y_factor)
            if any(par.skip_function.get(pop) for pop in pops if hasattr(par, "skip_function")):
                raise Unsupported("skip_function in a plain parameter set")
        spec["pars"].append(p)
    for par, pairs in F.transitions.items():
        for s, d in pairs:
            spec["links"].append([s, d, par])
    for name, row in F.characs.iterrows():
        spec["characs"].append(dict(name=name, comps=[x.strip() for x in row["components"].split(",")], denom=_none(row["denominator"])))
    spec["transfers"] = []
    for tname, by_src in parset.transfers.items():
        pairs = {}
        units = None
        for src, par in by_src.items():
            for dst, ts in par.ts.items():
                v = ts_to_v(ts)
                if v is None:
                    continue
                if par.y_factor[dst] != 1 or par.meta_y_factor != 1:
                    raise Unsupported("calibrated transfer")
                if ">" in src or ">" in dst:
                    raise Unsupported("population name contains '>'")
                pairs[f"{src}>{dst}"] = v
                u = ts.units.strip().split()[0].strip().lower()
                if units not in (None, u):
                    raise Unsupported("transfer with mixed units")
                units = u
        if pairs:
            spec["transfers"].append(dict(name=tname, units=units, pairs=pairs))
    spec["interactions"] = []
    for iname, by_from in parset.interactions.items():
        pairs = {}
        for frm, par in by_from.items():
            for to, ts in par.ts.items():
                v = ts_to_v(ts)
                if v is not None:
                    if par.y_factor[to] != 1 or par.meta_y_factor != 1:
                        raise Unsupported("calibrated interaction")
                    pairs[f"{frm}>{to}"] = v
        spec["interactions"].append(dict(name=iname, pairs=pairs))
    return spec


def progs_from_progset(ps, start_year, stop_year=None):
    """ProgramSet -> spec['progs'] (numbers only; the reference program algebra recomputes everything)"""
    progs = []
    for prog in ps.programs.values():
        spend = ts_to_v(prog.spend_data)
        uc = ts_to_v(prog.unit_cost)
        if spend is None or uc is None:
            raise Unsupported(f"program {prog.name} without spending / unit cost data")
        d = dict(name=prog.name, pops=list(prog.target_pops), comps=list(prog.target_comps), spend=spend, uc=uc, oneoff=bool(prog.is_one_off))
        cap = ts_to_v(prog.capacity_constraint)
        if cap is not None:
            d["cap"] = cap
            d["cap_abs"] = "/year" not in prog.capacity_constraint.units
        sat = ts_to_v(prog.saturation)
        if sat is not None:
            d["sat"] = sat
        progs.append(d)
    covouts = [dict(par=c.par, pop=c.pop, base=float(c.baseline), progs={k: float(v) for k, v in c.progs.items()}, inter=c.cov_interaction, imp=c.imp_interaction) for c in ps.covouts.values()]
    return dict(progs=progs, covouts=covouts, instr=dict(start=float(start_year), stop=stop_year))
