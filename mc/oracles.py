"""
Invariants evaluated on every state (time index) of a finished simulation.
Each function returns a list of violation dicts(key, what, detail).
"""

import numpy as np
from atomica.model import SourceCompartment, SinkCompartment, JunctionCompartment, TimedCompartment, TimedLink, Compartment


def V(key, what, detail=None):
    return dict(key=key, what=what, detail=detail)


def _sum(links, T):
    x = np.zeros(T)
    for l in links:
        x = x + l.vals
    return x


def balance(r, tol=1e-9):
    """C01: stock[i+1] = stock[i] + inflow[i] - outflow[i]; junctions pass on what they receive; global total"""
    m = r.model
    T = len(m.t)
    out = []
    tot = np.zeros(T)
    srcflow = np.zeros(T)
    for pop in m.pops:
        for c in pop.comps:
            v = np.asarray(c.vals, dtype=float)
            if isinstance(c, SourceCompartment):
                srcflow += _sum(c.outlinks, T)
                continue
            inflow = _sum(c.inlinks, T)
            outflow = _sum(c.outlinks, T)
            if isinstance(c, JunctionCompartment):
                err = np.abs(inflow - outflow)[:-1]
                bad = ~(err <= tol * np.maximum(1, np.abs(inflow[:-1])))
                if bad.any():
                    i = int(np.argmax(bad))
                    out.append(V(f"junction-imbalance", f"junction {pop.name}/{c.name} step {i}: in={inflow[i]!r} out={outflow[i]!r}", dict(pop=pop.name, comp=c.name, index=i)))
                if not (v == 0).all():
                    i = int(np.argmax(v != 0))
                    out.append(V("junction-nonempty", f"junction {pop.name}/{c.name} holds {v[i]!r} at index {i}", dict(pop=pop.name, comp=c.name, index=i)))
                continue
            tot += v
            err = np.abs(v[1:] - (v[:-1] + inflow[:-1] - outflow[:-1]))
            bad = ~(err <= tol * np.maximum(1, np.abs(v[:-1])))
            if bad.any():
                i = int(np.argmax(bad))
                out.append(V("stock-imbalance", f"{pop.name}/{c.name} step {i}: {v[i]!r} + {inflow[i]!r} - {outflow[i]!r} != {v[i+1]!r}", dict(pop=pop.name, comp=c.name, index=i)))
    err = np.abs((tot[1:] - tot[:-1]) - srcflow[:-1])
    bad = ~(err <= tol * np.maximum(1, np.abs(tot[:-1])))
    if bad.any():
        i = int(np.argmax(bad))
        out.append(V("total-imbalance", f"step {i}: total {tot[i]!r} -> {tot[i+1]!r}, source outflow {srcflow[i]!r}", dict(index=i)))
    return out


def sane(r, tol=1e-9):
    """C02 (first half): non-negative, finite, never over-drawn"""
    m = r.model
    T = len(m.t)
    out = []
    for pop in m.pops:
        for c in pop.comps:
            v = np.asarray(c.vals, dtype=float)
            if not np.isfinite(v).all():
                i = int(np.argmax(~np.isfinite(v)))
                out.append(V("nonfinite-stock", f"{pop.name}/{c.name} is {v[i]!r} at index {i}", dict(pop=pop.name, comp=c.name, index=i)))
            elif (v < 0).any():
                i = int(np.argmax(v < 0))
                out.append(V("negative-stock", f"{pop.name}/{c.name} is {v[i]!r} at index {i}", dict(pop=pop.name, comp=c.name, index=i)))
            if isinstance(c, TimedCompartment):
                sv = c._vals
                if not np.isfinite(sv).all() or (sv < 0).any():
                    out.append(V("bad-subcompartment", f"{pop.name}/{c.name} has a negative or non-finite elapsed-time bin", dict(pop=pop.name, comp=c.name)))
            if not isinstance(c, (SourceCompartment, JunctionCompartment, SinkCompartment)):
                outflow = _sum(c.outlinks, T)[:-1]
                bad = outflow > v[:-1] * (1 + tol) + 1e-12
                if bad.any():
                    i = int(np.argmax(bad))
                    out.append(V("overdraw", f"{pop.name}/{c.name} step {i}: outflow {outflow[i]!r} > stock {v[i]!r}", dict(pop=pop.name, comp=c.name, index=i)))
        for l in pop.links:
            lv = np.asarray(l.vals, dtype=float)[:-1]
            if not np.isfinite(lv).all():
                i = int(np.argmax(~np.isfinite(lv)))
                out.append(V("nonfinite-flow", f"{pop.name} link {l.source.name}->{l.dest.name} is {lv[i]!r} at step {i}", dict(pop=pop.name, src=l.source.name, dst=l.dest.name, index=i)))
            elif (lv < 0).any():
                i = int(np.argmax(lv < 0))
                out.append(V("negative-flow", f"{pop.name} link {l.source.name}->{l.dest.name} is {lv[i]!r} at step {i}", dict(pop=pop.name, src=l.source.name, dst=l.dest.name, index=i)))
            if isinstance(l, TimedLink):
                sv = l._vals[:, :-1]
                if not np.isfinite(sv).all() or (sv < 0).any():
                    out.append(V("bad-timedlink-row", f"{pop.name} link {l.source.name}->{l.dest.name} has a negative/non-finite row", None))
    return out


def has_flow(r):
    for pop in r.model.pops:
        for l in pop.links:
            if np.nansum(np.asarray(l.vals)[:-1]) > 0:
                return True
    return False
