"""Regenerates MANIFEST.json from the table below:  /venv/bin/python -m mc.manifest"""

import json
import os

ROOT = os.path.dirname(os.path.dirname(os.path.abspath(__file__)))

# id -> (category, technique, text, note, design_ref)
CHECKS = {
    "C01": (
        "model_checking",
        "bounded exhaustive enumeration of model structures x value levels x step sizes on the real simulator; balance invariant checked in every reached state (time index)",
        "Every valid structure inside the stated bound (<=3 core compartments, source, sink, junction gadgets, timed compartments, 2 populations with transfers, programs) is simulated and the conservation invariant is evaluated at every time index of every run; exhaustive within the bound, nothing outside it.",
        "Trusted: the spec->object builder (mc/build.py) and numpy. Bounds and domain restriction are listed in the evidence assumptions.",
        "5/C01",
    ),
    "C02": (
        "model_checking",
        "bounded exhaustive enumeration of model structures x extreme value levels x step sizes on the real simulator; sign/finiteness/over-draw and common-scaling invariants checked in every reached state",
        "Same exhaustive structure space as C01 with the extreme value alphabet and a negative-function sub-space; every time index of every run is a state in which every stock, bin and flow is checked, and every pair of competing outflows is checked for ratio preservation against fractions recomputed from the result's parameter values.",
        "Trusted: spec builder, the harness's re-computation of requested fractions (documented conversions). Bounds in the evidence assumptions.",
        "5/C02",
    ),
    "C03": (
        "model_checking",
        "explicit-state BFS over ProjectSettings operation histories with exact-arithmetic grid invariants + reference simulator whose every trace is replayed against the implementation at every time index",
        "(a) all states of the (start,end,dt) settings machine reachable within the depth bound are visited and the grid invariants checked in each; (b) an independent re-implementation written from the documentation is run on every model of the bounded structure space and compared with the real simulator at every index (conformance is the check, so the model is bound to the code by construction).",
        "Trusted: mc/refsim.py as a faithful reading of the documentation (unit-tested in mc/selftest.py), exact rational arithmetic of Python fractions.",
        "5/C03",
    ),
    "C04": (
        "model_checking",
        "bounded exhaustive enumeration of junction gadgets x proportion vectors x proportion sources x initial contents; junction invariants checked in every state, initial flush against the reference model",
        "Every junction sub-graph shape named in the property (single, residual, fan, chain, diamond, residual feeding a plain junction, in/out of a duration group) is enumerated with all proportion vectors over the level alphabet; emptiness, balance and the documented share are checked at every time index.",
        "Trusted: spec builder; shares recomputed from the result's own proportion values; reference initial flush in mc/refsim.py.",
        "5/C04",
    ),
    "C05": (
        "model_checking",
        "exhaustive enumeration of (D,dt) pairs x all inflow histories up to a length bound x outflow levels (and calibration factors on the duration) on the real simulator, compared bin-by-bin with a reference cohort model; cohort inequalities checked in every state",
        "All inflow histories over a 3-level alphabet up to the length bound are driven through timed compartments for every (D,dt) pair of the alphabet (including D/dt integer only up to rounding error); each trace of the reference cohort model is replayed against the implementation and the property's inequalities are evaluated at every index.",
        "Trusted: mc/refsim.py cohort semantics (documentation reading), spec builder.",
        "5/C05",
    ),
    "C19": (
        "exploration",
        "exhaustive enumeration: every forbidden construct x every allowed embedding context nested to depth 2/3 must be rejected by the real parser; every generated arithmetic expression up to depth 2/3 evaluated on the real parser against reference arithmetic",
        "The set of expression node classes is taken from the running interpreter and fully classified; each forbidden construct is embedded in every allowed context up to the depth bound (606k strings in the thorough tier) and must be rejected at parse time with no side effect in a scratch directory; accepted arithmetic is compared with reference real arithmetic on scalars and arrays.",
        "Trusted: numpy float64 as reference arithmetic; classification table of ast.expr subclasses in mc/props/c19.py (constructs the statement leaves open are 'unspecified' and never flagged).",
        "5/C19",
    ),
    "C11": (
        "exploration",
        "exhaustive grid enumeration on the real coverage functions with every ordered pair of grid points compared for monotonicity, against reference formulas",
        "The full product grid of spending x unit cost x capacity constraint x saturation x eligible x program type x dt is evaluated through Program.get_capacity/get_prop_covered and ProgramSet.get_capacities/get_prop_coverage; bounds, caps, precedence of overwrites, stepped interpolation and dt-independence are checked at every point and monotonicity on every ordered pair.",
        "Continuous-domain claim: only the grid is decided. Reference formulas written from Programs.rst (mc/refprog.py).",
        "5/C11",
    ),
    "C12": (
        "model_checking",
        "exhaustive enumeration of coverage vectors x effectiveness orders x interactions; combination weights extracted from the real Covout.get_outcome by finite differences and compared with a reference weight model (every reference trace validated against the implementation)",
        "For n <= 4/5 programs every permutation of effectiveness, every coverage vector of the grid and all three interactions are enumerated; the 2^n-1 combination weights are recovered from the real code and checked to be a sub-probability distribution with marginals equal to coverage and equal to the documented rule; outcome tables with ties, mixed signs and explicit interactions are checked for range, baseline, single-program line, monotonicity and agreement with the reference.",
        "Grid of coverage values only. Reference weights in mc/refprog.py (from Programs.rst). Finite-difference extraction relies on linearity of the outcome in each combination outcome (holds by construction of the weighted average; a non-linear implementation would show as a mismatch).",
        "5/C12",
    ),
    "C14": (
        "exploration",
        "exhaustive grid enumeration of proposals x totals x bounds on the real constrain_sum_bounded, and of proposal vectors through a real Optimization (solver non-convergence injected at every proposal) with TotalSpendConstraint / package adjustments",
        "Every combination of the proposal, total and bound alphabets for n <= 3/4 programs (240k calls quick) is passed to the real function and the returned vector checked against total and bounds (or a signal required); the same for TotalSpendConstraint driven through Optimization.get_hard_constraints/constrain_instructions with plain, paired and package adjustments, and for SpendingPackageAdjustment proportions.",
        "Continuous-domain claim: only the grid is decided. SLSQP inside scipy is part of the code under test, not trusted.",
        "5/C14",
    ),
    "C06": (
        "model_checking",
        "bounded exhaustive enumeration of parameter dependency graphs x data patterns x calibration factors x limits x programs x scenarios on the real simulator; every trace of the reference recomputation replayed against the implementation at every parameter, population and time index",
        "All dependency-graph shapes named in the property (chain, diamond, fan, functions of compartments/characteristics/time, cross-population aggregation, flow-dependent output parameters) are enumerated with every combination of data pattern, factor, limit, program and scenario setting; the independent reference (data -> factors -> function -> program -> aggregation -> limits) is compared with the result for every parameter at every index.",
        "Reading of the statement recorded in the evidence assumptions (calibration factors also multiply function values). Reference in mc/refsim.py.",
        "5/C06",
    ),
    "C07": (
        "model_checking",
        "bounded exhaustive enumeration of characteristic families x entered-quantity subsets x data vectors x calibration factors on the real initialisation; accept/refuse oracle at index 0 and characteristic-consistency invariant in every state",
        "Every family of up to 3 characteristics over 3 compartments (+ an initialised junction), every subset of entered quantities and every data vector of the alphabet is passed to the real build; the outcome must be the dedicated refusal or a start state reproducing all entered quantities, and every time index of the run is checked for characteristic consistency.",
        "Tolerance band (0, 1e-5) for implied negative compartments is outside the alphabet (see evidence assumptions).",
        "5/C07",
    ),
    "C09": (
        "model_checking",
        "paired-run enumeration over every intervention kind x every start year on/off the time grid x dt on the real simulator; all outputs before the start year compared bit-for-bit",
        "For each representative model and step size, every intervention kind named in the property is applied with every possible start year Y (each grid point, an off-grid point after each grid point, before the start, after the end) and all outputs at all indices with t < Y are compared exactly with the run without the intervention.",
        "Three model families (not the whole structure space); exact comparison restricted to correctly rounded function alphabets (see assumptions).",
        "5/C09",
    ),
    "C10": (
        "model_checking",
        "explicit-state exploration of restart chains (restart of a restart) from every grid year on the real code; each restarted run compared with the tail of its parent at every index",
        "States are (model, chain of restart years); from each state every grid year is used to save and restart, depth 2/3, and every restarted trajectory is compared with the tail of its parent for all stocks, elapsed-time bins, flows, parameters and characteristics; the calibration-spreadsheet route is taken from every first-level state.",
        "Model families listed in the evidence; tolerance 1e-10 for the in-memory route because the restarted time grid may differ in the last bit.",
        "5/C10",
    ),
    "C13": (
        "model_checking",
        "bounded exhaustive enumeration of program-carrying models x instructions x dt on the real simulator; reports and targeted parameter values recomputed at every time index from the spec, the result's stocks and the reference program algebra",
        "Every combination of targeted-parameter unit, number of programs, populations, targeted compartments, instruction kind and step size is simulated; at every time index the reported spending, capacity, eligible, fraction and number are recomputed independently, every targeted parameter is compared with the documented outcome at the reported coverage (converted and clipped), untargeted parameters with the program-free run, and the report functions are checked to be repeatable and side-effect free.",
        "Reference formulas in mc/refprog.py; junction and transfer targets outside the alphabet.",
        "5/C13",
    ),
    "C17": (
        "model_checking",
        "schedule enumeration: every assignment of samples to forked workers (up to renaming) executed on the real sampling code under a virtual fork pool, combined with every placement of refused initialisation attempts (environment answers); fork model validated against a real multiprocessing run and a raw os.fork probe",
        "multiprocessing.pool.Pool and sc.parallelize are replaced by a virtual pool that reproduces what a forked worker inherits (generator state, pickled task); all set partitions of N <= 5/6 jobs into <= 4 workers are executed for every uncertain-quantity variant, prior generator state and entry point, and every execution is checked for pairwise-distinct samples, untouched sources and equality with the unsampled run when there is no uncertainty.",
        "The OS scheduler is not controlled; the virtual pool's fork model is bound to reality by two real-pool runs and an os.fork probe per run.",
        "5/C17",
    ),
    "C20": (
        "model_checking",
        "exhaustive enumeration of ordered output selections x population arguments x aggregation options x transforms on the real PlotData against singleton calls; every time bin compared across all sub-lists of the requested bin edges; explicit-state BFS over sequences of reporting calls with full-snapshot purity invariant; exhaustive enumeration of nested cascades",
        "Every ordered selection of up to 3/4 outputs of an 8-entry alphabet is requested under every population argument, aggregation option and time transform and each series compared with the singleton call; all nested cascade chains over the characteristic lattice are evaluated from results (monotone) and from data (sum of entries); every sequence of up to 3 reporting calls is executed and the result's full structural snapshot compared after each call.",
        "One generated model family; outputs alphabet listed in mc/props/c20.py.",
        "5/C20",
    ),
    "C08": (
        "model_checking",
        "explicit-state exploration of all call histories up to depth 2/3 over a 15-operation alphabet on the real code, with bit-identity of outputs and full-snapshot equality of inputs checked after every operation; fresh-process repetition under varied hash seeds",
        "Every sequence of operations (runs of two different projects, model deep-copy / pickle round trips, result copies and save/load, scenario, zero-uncertainty sampling, optimisation, calibration) up to the depth bound is executed from fresh objects; after each operation the outputs must be bit-identical to those of the same operation from the initial state and every input object must be structurally unchanged. No state merging is performed, so hidden global state cannot be abstracted away.",
        "Two generated projects; the fresh-process clause is repetition (3 sub-processes), not enumeration.",
        "5/C08",
    ),
    "C15": (
        "fault_enumeration",
        "exhaustive enumeration of the ASD optimiser's decision paths (scripted random stream) on the real optimize()/calibrate(), and of every crash point (exception injected into the k-th simulation) of calibrate, optimize, run_optimization and reconcile",
        "Every sequence of (parameter, direction) choices ASD can make within the iteration bound is executed on the real code and the returned result checked (objective recomputed from Result arrays no worse, bounds, total-spend and hard targets kept, library objective equals the documented sum); for every k up to the number of simulations of a reference run a fault is injected into the k-th simulation and all caller-owned objects, including the temporarily shortened end year, are snapshot-compared.",
        "ASD only, paths up to maxiters 2/3, small generated problems; sciris is third-party code driven through a scripted generator.",
        "5/C15",
    ),
    "C16": (
        "model_checking",
        "explicit-state exploration of edit histories (all sequences up to length 2/3 over a 22-operation alphabet) on the real objects with a differential oracle against objects rebuilt from their own exported spreadsheets; exhaustive round trips of generated and library files",
        "Every history of editing operations within the bound is replayed on fresh objects; in every reached state the live objects must simulate like the objects rebuilt from their own exports, the export must be a fixed point, and the same operation applied to the rebuilt objects must lead to the same behaviour (so no hidden cache can matter). Round trips of every generated structure class and every loadable library file are compared for content and behaviour.",
        "Binary files of the current version only; library files that do not load are C18's concern.",
        "5/C16",
    ),
    "C18": (
        "exploration",
        "exhaustive single-rule mutation: every catalogue rule applied at every applicable site of generated and atomica-written workbooks, each with a known verdict, against the real readers, each both as a file and as the same tables put into an already validated framework object that is validated again; all generated and library files must load, give a blank databook that reads back and run",
        "Valid files in two writer styles (atomica's and an independent user-style writer) and every library file are loaded and run; each catalogue rule (delete required sheet/column, blank optional column, undefined / duplicate / reserved names, wrong units, self-referencing / cyclic / unsupported / malformed functions, un-nested cascade, timed-parameter misuse, missing population data, unit mismatch, unknown populations / parameters / programs, missing unit cost) is broken at every site where it can be broken and the reader must answer with the dedicated error (reject) or still load and run (accept).",
        "Validator totality is approached by the catalogue x all sites, not decided for arbitrary bytes; verdicts come from the catalogue.",
        "5/C18",
    ),
}

PENDING_REASON = "check not built yet in this session (see DESIGN.md section 8 for the build order); no claim is made"


def main():
    props = [json.loads(l)["id"] for l in open(os.path.join(ROOT, "properties.jsonl"))]
    checks = []
    for pid in props:
        if pid not in CHECKS:
            continue
        cat, tech, text, note, ref = CHECKS[pid]
        checks.append(
            dict(
                property_id=pid,
                quick_cmd=f"./check {pid} --tier quick",
                thorough_cmd=f"./check {pid} --tier thorough",
                evidence_file=f"/verif/evidence/{pid}.json",
                replay_cmd_template=f"./check {pid} --replay {{path}}",
                engine="mc",
                level_claimed=dict(category=cat, text=text, design_ref=f"DESIGN.md section {ref}"),
                level_note=note,
                technique=tech,
            )
        )
    man = dict(
        version=1,
        setup_cmd="/venv/bin/python -m compileall -q mc && /venv/bin/python -m mc.selftest",
        hooks=dict(
            guard="ATOMICA_VERIF",
            enable="no source hooks are needed: the harness wraps the pool, the ASD generator and the simulation entry point from outside for the duration of a case",
            baseline_off_cmd="cd /repo && /venv/bin/python -m pytest -ra -q -p no:cacheprovider --timeout=900 --continue-on-collection-errors",
            source_commits=[],
            add_only=True,
        ),
        engines=[dict(name="mc", path="/verif/mc", serves_properties=[c["property_id"] for c in checks], kind_free_text="hand-written bounded exhaustive explorer for Python: deterministic product/sequence enumerators, explicit-state BFS over operation histories, virtual fork pool with schedule enumeration, scripted optimiser RNG, crash-point injector; invariants and reference models evaluated on the real atomica code")],
        checks=checks,
        notes="All checks run against the working tree of /repo (atomica is installed editable in /venv). Known findings: /verif/known_findings.json.",
        not_applicable=[dict(property_id=p, reason=NA.get(p, PENDING_REASON)) for p in props if p not in CHECKS],
    )
    with open(os.path.join(ROOT, "MANIFEST.json"), "w") as f:
        json.dump(man, f, indent=1)
    print("MANIFEST.json:", len(checks), "checks,", len(man["not_applicable"]), "not claimed")


NA = {}

if __name__ == "__main__":
    main()
