"""Regenerates MANIFEST.json from the table below:  /venv/bin/python -m mc.manifest"""

import json
import os

ROOT = os.path.dirname(os.path.dirname(os.path.abspath(__file__)))

# id -> (category, technique, text, note, design_ref)
CHECKS = {
    "C01": (
        "model_checking",
        "bounded exhaustive enumeration of model structures x value levels x step sizes on the real simulator; balance invariant checked in every reached state (time index)",
        "Every valid structure inside the stated bound (<=3 core compartments, source, sink, junction gadgets, timed compartments, 2 populations with transfers, programs) is simulated and the conservation invariant is evaluated at every time index of every run; exhaustive within the bound, nothing outside it.",
        "Trusted: the spec->object builder (mc/build.py) and numpy. Bounds and domain restriction are listed in the evidence assumptions.",
        "5/C01",
    ),
}

PENDING_REASON = "check not built yet in this session (see DESIGN.md section 8 for the build order); no claim is made"


def main():
    props = [json.loads(l)["id"] for l in open(os.path.join(ROOT, "properties.jsonl"))]
    checks = []
    for pid in props:
        if pid not in CHECKS:
            continue
        cat, tech, text, note, ref = CHECKS[pid]
        checks.append(
            dict(
                property_id=pid,
                quick_cmd=f"./check {pid} --tier quick",
                thorough_cmd=f"./check {pid} --tier thorough",
                evidence_file=f"/verif/evidence/{pid}.json",
                replay_cmd_template=f"./check {pid} --replay {{path}}",
                engine="mc",
                level_claimed=dict(category=cat, text=text, design_ref=f"DESIGN.md section {ref}"),
                level_note=note,
                technique=tech,
            )
        )
    man = dict(
        version=1,
        setup_cmd="/venv/bin/python -m compileall -q mc && /venv/bin/python -m mc.selftest",
        hooks=dict(
            guard="ATOMICA_VERIF",
            enable="no source hooks are needed: the harness wraps the pool, the ASD generator and the simulation entry point from outside for the duration of a case",
            baseline_off_cmd="cd /repo && /venv/bin/python -m pytest -ra -q -p no:cacheprovider --timeout=900 --continue-on-collection-errors",
            source_commits=[],
            add_only=True,
        ),
        engines=[dict(name="mc", path="/verif/mc", serves_properties=[c["property_id"] for c in checks], kind_free_text="hand-written bounded exhaustive explorer for Python: deterministic product/sequence enumerators, explicit-state BFS over operation histories, virtual fork pool with schedule enumeration, scripted optimiser RNG, crash-point injector; invariants and reference models evaluated on the real atomica code")],
        checks=checks,
        notes="All checks run against the working tree of /repo (atomica is installed editable in /venv). Known findings: /verif/known_findings.json.",
        not_applicable=[dict(property_id=p, reason=NA.get(p, PENDING_REASON)) for p in props if p not in CHECKS],
    )
    with open(os.path.join(ROOT, "MANIFEST.json"), "w") as f:
        json.dump(man, f, indent=1)
    print("MANIFEST.json:", len(checks), "checks,", len(man["not_applicable"]), "not claimed")


NA = {}

if __name__ == "__main__":
    main()
