"""
Scripted random stream for sciris ASD (DESIGN.md 4.7) and a stateless DFS over the optimiser's decision tree.

sc.asd picks, at every attempt, one of 2n (parameter, direction) choices with
    choice = np.flatnonzero(cumprobs > rng.random())[0]
All choices have positive probability, so every choice sequence is a possible random path.  The scripted generator returns a
Pick(k) object whose comparison with the cumulative-probability array selects exactly index k, so the explorer enumerates
choice sequences directly (independently of the adaptive probabilities).
"""

from contextlib import contextmanager
import numpy as np


class Pick:
    __array_ufunc__ = None  # make ndarray defer to the reflected comparison below

    def __init__(self, k):
        self.k = k

    def __lt__(self, arr):  # evaluated for `cumprobs > Pick`
        return np.arange(len(arr)) >= min(self.k, len(arr) - 1)

    __le__ = __lt__


class ScriptedRNG:
    def __init__(self, prefix):
        self.prefix = list(prefix)
        self.draws = []  # choices actually taken (prefix then default 0)

    def random(self, *a, **k):
        i = len(self.draws)
        c = self.prefix[i] if i < len(self.prefix) else 0
        self.draws.append(c)
        return Pick(c)


@contextmanager
def scripted(prefix):
    rng = ScriptedRNG(prefix)
    old = np.random.default_rng
    np.random.default_rng = lambda *a, **k: rng
    try:
        yield rng
    finally:
        np.random.default_rng = old


def explore(run, n_choices, max_draws):
    """
    Stateless DFS: run(prefix) executes the real optimiser under the scripted stream and returns (rng, outcome).
    Every choice sequence of the draws that actually happen (up to max_draws draws) is executed exactly once.
    Yields (path, outcome).
    """
    stack = [[]]
    seen = set()
    while stack:
        prefix = stack.pop()
        rng, outcome = run(prefix)
        path = tuple(rng.draws)
        if path[: len(prefix)] != tuple(prefix):
            raise AssertionError("scripted stream diverged while replaying a prefix")
        if path in seen:
            continue
        seen.add(path)
        yield list(path), outcome
        for i in range(len(prefix), min(len(path), max_draws)):
            for alt in range(1, n_choices):
                stack.append(list(path[:i]) + [alt])
