"""
Reference program algebra written from docs/general/programs/Programs.rst (coverage, saturation, interactions).
Plain Python; shares no code with atomica.programs.
"""

import itertools
import math


def interp_previous(v, t):
    """Stepped ('previous') interpolation: the most recent entry at or before t; before the first entry, the first entry"""
    if not isinstance(v, dict):
        return float(v)
    pts = sorted(zip(v["t"], v["v"]))
    out = pts[0][1]
    for tt, vv in pts:
        if tt <= t:
            out = vv
    return float(out)


def prog_capacity(pr, spend, t, dt):
    """people reachable in one step: spend/unit cost (x dt for one-off programs), capped by the capacity constraint"""
    uc = interp_previous(pr["uc"], t)
    cap = spend / uc
    if pr.get("oneoff"):
        cap *= dt
    if pr.get("cap") is not None:
        cc = interp_previous(pr["cap"], t)
        if not pr.get("cap_abs"):
            cc *= dt
        cap = min(cap, cc)
    return cap


def prog_prop_covered(pr, cap, nel, t):
    if pr.get("sat") is not None:
        a = interp_previous(pr["sat"], t)
        x = cap / nel if nel != 0 else math.inf
        e = math.exp(-2 * x / a) if x != math.inf else 0.0
        return min(2 * a / (1 + e) - a, 1.0)
    if nel > cap:
        return cap / nel
    return 1.0


def parse_imp(imp):
    out = {}
    if imp and imp.lower() not in ("best", "synergistic"):
        for item in imp.split(","):
            combo, val = item.split("=")
            out[frozenset(x.strip() for x in combo.split("+"))] = float(val)
    return out


def effectiveness_order(progs, base):
    """most effective first; ties keep the given order"""
    return sorted(progs, key=lambda k: -abs(progs[k] - base))


def subset_outcome(S, progs, base, explicit, order):
    """delta (relative to baseline) for people covered by exactly the programs in S"""
    if not S:
        return 0.0
    if frozenset(S) in explicit:
        return explicit[frozenset(S)] - base
    best = None
    for k in order:
        if k in S and (best is None or abs(progs[k] - base) > abs(progs[best] - base)):
            best = k
    return progs[best] - base


def weights(inter, names, cov):
    """{frozenset(programs): share of the eligible people covered by exactly that set}; names in effectiveness order"""
    n = len(names)
    c = [cov[k] for k in names]
    W = {}
    subsets = [frozenset(s) for r in range(1, n + 1) for s in itertools.combinations(names, r)]
    if inter == "random":
        for S in subsets:
            w = 1.0
            for k, ck in zip(names, c):
                w *= ck if k in S else (1 - ck)
            W[S] = w
    elif inter == "nested":
        W = {S: 0.0 for S in subsets}
        idx = sorted(range(n), key=lambda i: c[i])
        active = set(names)
        prev = 0.0
        for i in idx:
            S = frozenset(active)
            W[S] = W.get(S, 0.0) + (c[i] - prev)
            prev = c[i]
            active.discard(names[i])
    elif inter == "additive":
        if sum(c) <= 1:
            W = {S: 0.0 for S in subsets}
            for k, ck in zip(names, c):
                W[frozenset([k])] = ck
        else:
            a, used = [], 0.0
            for ck in c:
                x = max(0.0, min(ck, 1 - used))
                a.append(x)
                used += ck
            r = [ck - ak for ck, ak in zip(c, a)]
            rho = [(rk / (1 - ak) if (1 - ak) != 0 else 0.0) for rk, ak in zip(r, a)]
            for S in subsets:
                w = 0.0
                for i, k in enumerate(names):
                    if k not in S:
                        continue
                    term = a[i]
                    for j, kj in enumerate(names):
                        if j == i:
                            continue
                        term *= rho[j] if kj in S else (1 - rho[j])
                    w += term
                W[S] = w
    else:
        raise ValueError(inter)
    return W


def covout_outcome(co, cov):
    progs = co["progs"]
    base = co["base"]
    order = effectiveness_order(progs, base)
    if not order:
        return base
    if len(order) == 1:
        return base + cov[order[0]] * (progs[order[0]] - base)
    explicit = parse_imp(co.get("imp"))
    W = weights(co.get("inter") or "additive", order, cov)
    return base + math.fsum(w * subset_outcome(S, progs, base, explicit, order) for S, w in W.items())
