"""
Workbook models and writers for C18.

A framework workbook is modelled as {sheet title: [table, ...]}, a table being a list of rows (lists of cell values).  `user_framework`
derives such a model from a generated spec using the spellings users use (Title Case headings, capitalised units, optional columns present
but blank, a corner label in the transition matrix); `to_bytes` writes it with openpyxl.  Mutations are plain functions on the model.
Atomica-written workbooks (databooks, program books) are mutated at cell level through openpyxl.
"""

import copy
import io

import openpyxl
import sciris as sc


def to_bytes(model):
    wb = openpyxl.Workbook()
    wb.remove(wb.active)
    for title, tables in model.items():
        ws = wb.create_sheet(title)
        r = 1
        for tab in tables:
            for row in tab:
                for c, v in enumerate(row):
                    if v is not None:
                        ws.cell(row=r, column=c + 1, value=v)
                r += 1
            r += 1  # blank row between tables
    f = io.BytesIO()
    wb.save(f)
    return f.getvalue()


def spreadsheet(blob):
    return sc.Spreadsheet(source=io.BytesIO(blob))


def yn(b):
    return "y" if b else "n"


def user_framework(spec, cap_units=True, blank_optional=True):
    """spec (mc/build.py format) -> workbook model in 'user style'"""
    U = (lambda s: s.capitalize() if (s and cap_units) else s)
    comps = [["Code Name", "Display Name", "Is Sink", "Is Source", "Is Junction", "Databook Page", "Default Value", "Setup Weight", "Guidance"]]
    for c in spec["comps"]:
        k = c.get("kind", "ord")
        comps.append([c["name"], "C " + c["name"], yn(k == "sink"), yn(k == "src"), yn(k == "junc"), "cp" if c.get("init") is not None else None, c.get("default"), None, None])
    pars = [["Code Name", "Display Name", "Format", "Function", "Databook Page", "Timescale", "Timed", "Targetable", "Minimum Value", "Maximum Value", "Guidance"]]
    for p in spec["pars"]:
        pars.append([p["name"], "P " + p["name"], U(p.get("fmt")), p.get("fn"), "pp" if p.get("val") is not None else None, p.get("ts"), yn(p.get("timed")), yn(p.get("targ")), p.get("min"), p.get("max"), None])
    names = [c["name"] for c in spec["comps"]]
    mat = [["Transition matrix"] + names]
    for s in names:
        row = [s]
        for d in names:
            ps = [p for (a, b, p) in spec["links"] if a == s and b == d]
            row.append(",".join(ps) if ps else None)
        mat.append(row)
    chars = [["Code Name", "Display Name", "Components", "Denominator", "Databook Page", "Default Value", "Setup Weight"]]
    for c in spec.get("characs", []):
        chars.append([c["name"], "X " + c["name"], ",".join(c["comps"]), c.get("denom"), "cp" if c.get("val") is not None else None, c.get("default"), None])
    model = {
        "About": [[["Name", "Description"], ["mc generated", "user style"]]],
        "Databook Pages": [[["Datasheet Code Name", "Datasheet Title"], ["cp", "Compartments"], ["pp", "Parameters"]]],
        "Compartments": [comps],
        "Characteristics": [chars],
        "Parameters": [pars],
        "Transitions": [mat],
    }
    if spec.get("interactions"):
        model["Interactions"] = [[["Code Name", "Display Name", "Default Value"]] + [[i["name"], "I " + i["name"], i.get("default")] for i in spec["interactions"]]]
    if spec.get("cascades"):
        model["Cascades"] = [[[name, "Constituents"]] + [list(st) for st in stages] for name, stages in spec["cascades"].items()]
    if not blank_optional:
        for sheet, cols in (("Compartments", ("Setup Weight", "Guidance")), ("Parameters", ("Guidance",)), ("Characteristics", ("Setup Weight",))):
            drop_columns(model, sheet, cols)
    return model


# ---------------------------------------------------------------- helpers on the model


def table(model, sheet, i=0):
    return model[sheet][i]


def col_index(tab, name):
    return [str(h).lower() if h is not None else None for h in tab[0]].index(name.lower())


def drop_columns(model, sheet, cols):
    tab = table(model, sheet)
    idx = sorted((col_index(tab, c) for c in cols), reverse=True)
    for row in tab:
        for i in idx:
            if i < len(row):
                del row[i]


def blank_column(model, sheet, col):
    tab = table(model, sheet)
    i = col_index(tab, col)
    for row in tab[1:]:
        row[i] = None


def set_cell(model, sheet, rowkey, col, value):
    tab = table(model, sheet)
    i = col_index(tab, col)
    for row in tab[1:]:
        if row[0] == rowkey:
            row[i] = value
            return
    raise KeyError(rowkey)


def get_cell(model, sheet, rowkey, col):
    tab = table(model, sheet)
    i = col_index(tab, col)
    for row in tab[1:]:
        if row[0] == rowkey:
            return row[i]
    raise KeyError(rowkey)


def rows(model, sheet):
    return [r[0] for r in table(model, sheet)[1:]]


def clone(model):
    return copy.deepcopy(model)


# ---------------------------------------------------------------- atomica-written workbooks


def load(blob):
    return openpyxl.load_workbook(io.BytesIO(blob))


def values_only(blob):
    """atomica writes cross-sheet formulas (with cached values); a workbook re-saved by openpyxl loses the cached values, so mutations
    are applied to a values-only copy (which atomica reads exactly like the original)"""
    return dump(openpyxl.load_workbook(io.BytesIO(blob), data_only=True))


def dump(wb):
    f = io.BytesIO()
    wb.save(f)
    return f.getvalue()


def find_cells(ws, predicate):
    out = []
    for row in ws.iter_rows():
        for c in row:
            if c.value is not None and predicate(c):
                out.append(c.coordinate)
    return out
