"""
Runner for the bounded exhaustive checks.

    ./check C07 [--tier quick|thorough] [--replay FILE] [--jobs N]

Contract (see DESIGN.md section 3):
  exit 0  property held on everything explored (KNOWN-FINDING lines may be printed)
  exit 1  at least one violation not listed in known_findings.json; prints
          "VIOLATION property=<id> replay=<path>"
  exit 2  harness error (never prints VIOLATION)

A property module (mc/props/cXX.py) provides

  LEVEL        evidence level string
  RULE         how cases are enumerated / what makes one non-trivial
  ASSUMPTIONS  list of strings
  cases(tier)  deterministic generator of JSON-serialisable case dicts (simplest first)
  run_case(case) -> dict(states=int, transitions=int, nontrivial=bool,
                         violations=[dict(key=str, what=str, detail=...)],
                         traces=int (optional), counters={...} (optional), digest=str (optional))
  finalize(tier, summary) -> optional list of extra violations / coverage updates
"""

import argparse
import fnmatch
import hashlib
import importlib
import json
import multiprocessing as mp
import os
import signal
import sys
import time
import traceback

ROOT = os.path.dirname(os.path.dirname(os.path.abspath(__file__)))
REPO = "/repo"


class CaseTimeout(BaseException):
    # BaseException: the library wraps "except Exception" around evaluations and would otherwise swallow / re-label the alarm
    pass


class HarnessError(Exception):
    pass


def _alarm(signum, frame):
    raise CaseTimeout()


def case_hash(case) -> str:
    return hashlib.sha256(json.dumps(case, sort_keys=True, default=str).encode()).hexdigest()[:16]


def atomica_frame(tb):
    """Innermost frame inside /repo/atomica of a traceback, as 'file.py:func' (no line numbers: keys must be stable)"""
    out = None
    for fs in traceback.extract_tb(tb):
        fn = fs.filename.replace("\\", "/")
        if "/atomica/" in fn and "/verif/" not in fn:
            out = f"{os.path.basename(fn)}:{fs.name}"
    return out


def guarded_run(mod, case, timeout):
    """Run one case; convert escaping exceptions/hangs into violations (if atomica is on the stack)"""
    # CPU time of this process, not wall time: a loaded machine must not turn a slow case into a "hang"
    signal.signal(signal.SIGVTALRM, _alarm)
    signal.setitimer(signal.ITIMER_VIRTUAL, timeout)
    try:
        out = mod.run_case(case)
    except CaseTimeout:
        out = dict(states=0, transitions=0, nontrivial=False, violations=[dict(key="hang", what=f"case exceeded {timeout}s of CPU time", detail=None)])
    except HarnessError:
        raise
    except Exception as e:
        fr = atomica_frame(e.__traceback__)
        tb = traceback.format_exc()
        if fr is None:
            # Exception entirely inside the harness: not a verdict about atomica
            raise HarnessError(f"harness exception on case {json.dumps(case, default=str)[:400]}\n{tb}")
        out = dict(states=0, transitions=0, nontrivial=False, violations=[dict(key=f"unexpected-exception:{type(e).__name__}@{fr}", what=f"unexpected {type(e).__name__}: {str(e)[:200]}", detail=tb[-1500:])])
    finally:
        signal.setitimer(signal.ITIMER_VIRTUAL, 0)
    return out


_CASES = None  # materialised in the parent before the pool forks; chunks refer to it by index
_T0 = None


def _worker(args):
    modname, tier, lo, hi, seed, timeout, budget = args
    os.environ.setdefault("MPLBACKEND", "agg")
    mod = importlib.import_module(modname)
    t0 = _T0 or time.time()
    mine = _CASES[lo:hi]
    agg = dict(evaluations=0, states=0, transitions=0, traces=0, digests=set(), outcomes=set(), violations=[], counters={}, samples=[], capped=False, n_viol=0, error=None)
    best = None
    try:
        for c in mine:
            if budget and time.time() - t0 > budget:
                agg["capped"] = True
                break
            out = guarded_run(mod, c, timeout)
            agg["evaluations"] += 1
            agg["states"] += int(out.get("states", 0))
            agg["transitions"] += int(out.get("transitions", 0))
            agg["traces"] += int(out.get("traces", 0))
            if out.get("nontrivial"):
                agg["digests"].add(out.get("digest") or case_hash(c))
            if "outcome" in out:
                agg["outcomes"].add(str(out["outcome"]))
            for kk, vv in (out.get("counters") or {}).items():
                agg["counters"][kk] = agg["counters"].get(kk, 0) + vv
            if out.get("violations"):
                # Confirm determinism before believing it
                out2 = guarded_run(mod, c, timeout)
                k1 = sorted(v["key"] for v in out["violations"])
                k2 = sorted(v["key"] for v in out2.get("violations", []))
                if k1 != k2 and not (k2 and set(k1) == set(k2)):  # the same kinds of violation in another multiplicity (an oracle that stops at the first one per object) is still a reproduced failure
                    raise HarnessError(f"non-reproducible failure on case {json.dumps(c, default=str)[:400]}: {k1} vs {k2}")
                agg["n_viol"] += len(out["violations"])
                if len(agg["violations"]) < 40:
                    for v in out["violations"][:5]:
                        agg["violations"].append(dict(case=c, **v))
            sz = len(json.dumps(c, default=str))
            if not agg["samples"]:
                agg["samples"].append(c)
            if best is None or sz > best[0]:
                best = (sz, c)
        if best and best[1] not in agg["samples"]:
            agg["samples"].append(best[1])
        if mine and mine[-1] not in agg["samples"] and not agg["capped"]:
            agg["samples"].append(mine[-1])
    except HarnessError as e:
        agg["error"] = str(e)
    except Exception:
        agg["error"] = "worker crashed:\n" + traceback.format_exc()
    agg["n_cases"] = len(mine)
    return agg


def load_known():
    p = os.path.join(ROOT, "known_findings.json")
    if not os.path.exists(p):
        return []
    with open(p) as f:
        return json.load(f).get("findings", [])


def main(argv=None):
    ap = argparse.ArgumentParser()
    ap.add_argument("prop")
    ap.add_argument("--tier", default=os.environ.get("VERIF_TIER", "quick"), choices=["quick", "thorough"])
    ap.add_argument("--replay", default=None)
    ap.add_argument("--jobs", type=int, default=int(os.environ.get("VERIF_JOBS", "0")) or min(16, os.cpu_count() or 1))
    ap.add_argument("--budget", type=float, default=float(os.environ.get("VERIF_BUDGET", "0")), help="wall-clock cap per worker in seconds (0 = none); a capped run reports exhaustive=false")
    args = ap.parse_args(argv)

    pid = args.prop.upper()
    seed = int(os.environ.get("VERIF_SEED", "0") or 0)
    os.environ.setdefault("MPLBACKEND", "agg")
    os.environ.setdefault("PYTHONHASHSEED", "0")
    sys.path.insert(0, ROOT)
    t0 = time.time()

    try:
        import atomica

        if not os.path.abspath(atomica.__file__).startswith(os.environ.get("VERIF_REPO", REPO) + "/"):
            print(f"HARNESS-ERROR: atomica imported from {atomica.__file__}, expected {REPO}", file=sys.stderr)
            return 2
    except Exception:
        # A tree that does not import cannot satisfy any property, but that is not a verdict we can replay
        traceback.print_exc()
        print("HARNESS-ERROR: atomica does not import", file=sys.stderr)
        return 2

    modname = f"mc.props.{pid.lower()}"
    mod = importlib.import_module(modname)
    timeout = getattr(mod, "CASE_TIMEOUT", 60)

    if args.replay:
        with open(args.replay) as f:
            rp = json.load(f)
        out = guarded_run(mod, rp["case"], timeout)
        vs = out.get("violations", [])
        for v in vs:
            print(f"replayed violation: {v['key']}: {v['what']}")
        if vs:
            print(f"VIOLATION property={pid} replay={os.path.abspath(args.replay)}")
            return 1
        print("replay: no violation")
        return 0

    jobs = max(1, args.jobs)
    njobs = getattr(mod, "MAX_JOBS", jobs)
    jobs = min(jobs, njobs)
    global _CASES, _T0
    _CASES = list(mod.cases(args.tier))
    _T0 = time.time()
    if _CASES and seed:
        # VERIF_SEED only rotates the visiting order: the same set of cases is explored
        r = (seed * 7919) % len(_CASES)
        _CASES = _CASES[r:] + _CASES[:r]
    nchunks = max(1, min(len(_CASES), jobs * 12))
    step = -(-len(_CASES) // nchunks) if _CASES else 1
    work = [(modname, args.tier, lo, min(lo + step, len(_CASES)), seed, timeout, args.budget) for lo in range(0, len(_CASES), step)]
    if jobs == 1:
        results = [_worker(w_) for w_ in work]
    else:
        import multiprocessing.pool as mpp

        ctx = mp.get_context("fork")

        class _NoDaemonProcess(ctx.Process):
            # checks may start real worker pools themselves (C17 binds its virtual pool to a real one)
            @property
            def daemon(self):
                return False

            @daemon.setter
            def daemon(self, value):
                pass

        class _Ctx(type(ctx)):
            Process = _NoDaemonProcess

        with mpp.Pool(jobs, context=_Ctx()) as pool:
            results = list(pool.imap_unordered(_worker, work, chunksize=1))

    errors = [r["error"] for r in results if r["error"]]
    tot = dict(evaluations=0, states=0, transitions=0, traces=0, n_viol=0)
    digests, outcomes, counters, samples, viols = set(), set(), {}, [], []
    capped = False
    ncases = 0
    for r in results:
        for k in tot:
            tot[k] += r[k]
        digests |= r["digests"]
        outcomes |= r["outcomes"]
        for kk, vv in r["counters"].items():
            counters[kk] = counters.get(kk, 0) + vv
        samples += r["samples"][:2]
        viols += r["violations"]
        capped |= r["capped"]
        ncases += r["n_cases"]

    extra_cov = {}
    if hasattr(mod, "finalize") and not errors:
        try:
            fin = mod.finalize(args.tier, dict(counters=counters, evaluations=tot["evaluations"])) or {}
            for v in fin.get("violations", []):
                viols.append(dict(case=v.get("case"), **{k: v[k] for k in ("key", "what", "detail") if k in v}))
                tot["n_viol"] += 1
            extra_cov = fin.get("coverage", {})
            for k in ("states", "transitions", "traces", "evaluations"):
                tot[k] += int(fin.get(k, 0))
            digests |= set(fin.get("digests", []))
            samples += fin.get("samples", [])
        except HarnessError as e:
            errors.append(str(e))
        except Exception:
            errors.append("finalize crashed:\n" + traceback.format_exc())

    # Known findings
    known = [k for k in load_known() if k.get("property") == pid and k.get("status") == "open"]
    new_viols, known_hits = [], {}
    for v in viols:
        hit = next((k for k in known if fnmatch.fnmatchcase(v["key"], k["key"])), None)
        if hit:
            known_hits.setdefault(hit["key"], [hit, 0])[1] += 1
        else:
            new_viols.append(v)

    # Replay files
    rdir = os.path.join(os.environ.get("VERIF_REPLAY_DIR") or os.path.join(ROOT, "replays"), pid)
    replay_paths = []
    seen_keys = set()
    for v in new_viols:
        if v["key"] in seen_keys and len(replay_paths) >= 3:
            continue
        seen_keys.add(v["key"])
        os.makedirs(rdir, exist_ok=True)
        h = case_hash([v.get("case"), v["key"]])
        p = os.path.join(rdir, f"{h}.json")
        with open(p, "w") as f:
            json.dump(dict(property=pid, tier=args.tier, case=v.get("case"), key=v["key"], what=v["what"], detail=v.get("detail")), f, indent=1, default=str)
        replay_paths.append((p, v))
        if len(replay_paths) >= 10:
            break

    wall = time.time() - t0
    level = mod.LEVEL
    cov = dict(
        evaluations=tot["evaluations"],
        distinct_nontrivial=len(digests),
        rule=mod.RULE,
        samples=samples[:4],
        states=tot["states"],
        transitions=tot["transitions"],
        traces_validated_against_impl=tot["traces"],
        exhaustive=(not capped) and not errors,
        cases_in_space=ncases,
        distinct_outcomes=len(outcomes),
        counters=counters,
        caps=dict(budget_s_per_worker=args.budget, hit=capped),
        jobs=jobs,
    )
    cov.update(extra_cov)
    ev = dict(property_id=pid, tier=args.tier, seed=seed, level=level, coverage=cov, assumptions=list(getattr(mod, "ASSUMPTIONS", [])), wall_s=round(wall, 2), violations=len(new_viols), known_findings_hit=[k for k in known_hits])
    evdir = os.environ.get("VERIF_EVIDENCE_DIR") or os.path.join(ROOT, "evidence")  # (override used only by tools/try_mut.sh so that runs on a deliberately broken tree never touch the committed evidence)
    os.makedirs(evdir, exist_ok=True)
    if errors:
        ev["harness_errors"] = [e[:400] for e in errors[:3]]
        ev["coverage"]["exhaustive"] = False
    with open(os.path.join(evdir, f"{pid}.json"), "w") as f:
        json.dump(ev, f, indent=1, default=str)

    print(f"[{pid}] tier={args.tier} seed={seed} cases={tot['evaluations']}/{ncases} states={tot['states']} transitions={tot['transitions']} traces={tot['traces']} nontrivial={len(digests)} outcomes={len(outcomes)} violations={tot['n_viol']} wall={wall:.1f}s" + (" CAPPED" if capped else ""))
    if counters:
        print(f"[{pid}] counters: " + json.dumps(counters, sort_keys=True))
    for e in errors[:3]:
        print("HARNESS-ERROR:", e, file=sys.stderr)
    if errors and not new_viols:
        return 2  # nothing reproducible to report: not a verdict about atomica
    for key, (k, n) in known_hits.items():
        print(f"KNOWN-FINDING: property={pid} {k['what']} [{n} case(s), key={key}]")
    if new_viols:
        shown = set()
        for p, v in replay_paths:
            if v["key"] in shown:
                continue
            shown.add(v["key"])
            print(f"  violation key={v['key']}: {v['what']}")
            print(f"VIOLATION property={pid} replay={p}")
        return 1
    return 0


if __name__ == "__main__":
    sys.exit(main())
